#!/usr/bin/env python3
"""MANIFEST.setup_cmd: build the fact driver and warm the dependency target (offline)."""
import os, sys
sys.path.insert(0, os.path.dirname(os.path.abspath(__file__)))
import build_facts
try:
    build_facts.build_driver()
    d = build_facts.facts_dir("default+uring", log=lambda m: print(m))
    print("facts:", d)
except build_facts.FactsError as e:
    print("SETUP-ERROR:", e)
    sys.exit(2)
