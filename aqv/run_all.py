#!/usr/bin/env python3
"""Run every claimed check (quick tier) and validate MANIFEST + evidence against the schemas."""
import json, subprocess, sys, os, time
from concurrent.futures import ThreadPoolExecutor
m = json.load(open('/verif/MANIFEST.json'))
tier = sys.argv[1] if len(sys.argv) > 1 else 'quick'
def run(c):
    t = time.time()
    cmd = c['quick_cmd'] if tier == 'quick' else c['thorough_cmd']
    r = subprocess.run(cmd, shell=True, cwd='/verif', stdout=subprocess.PIPE, stderr=subprocess.STDOUT, text=True)
    return c['property_id'], r.returncode, r.stdout.strip().splitlines()[-1] if r.stdout.strip() else '', time.time() - t, r.stdout
bad = 0
# facts first (serialised by flock anyway)
subprocess.run([sys.executable, '/verif/aqv/build_facts.py'], stdout=subprocess.DEVNULL)
with ThreadPoolExecutor(8) as ex:
    for pid, rc, last, dt, out in ex.map(run, m['checks']):
        kf = [l for l in out.splitlines() if l.startswith('KNOWN-FINDING')]
        print('%s rc=%d %.1fs %s' % (pid, rc, dt, last))
        for l in kf: print('   ', l[:200])
        if rc != 0:
            bad += 1
            print(out[-3000:])
v = subprocess.run(['python3-vt', '-c', '''
import json, jsonschema, sys
m = json.load(open("/verif/MANIFEST.json"))
jsonschema.validate(m, json.load(open("/root/.vp/MANIFEST.schema.json")))
es = json.load(open("/root/.vp/EVIDENCE.schema.json"))
for c in m["checks"]:
    e = json.load(open(c["evidence_file"]))
    jsonschema.validate(e, es)
    assert e["level"] == c["level_claimed"]["category"], (c["property_id"], e["level"])
    if e["level"] == "proof":
        assert e["coverage"]["obligations"] == e["coverage"]["discharged"], c["property_id"]
ids = [json.loads(l)["id"] for l in open("/verif/properties.jsonl")]
assert sorted([c["property_id"] for c in m["checks"]] + [n["property_id"] for n in m["not_applicable"]]) == sorted(ids)
print("manifest + evidence valid")
'''], stdout=subprocess.PIPE, stderr=subprocess.STDOUT, text=True)
print(v.stdout.strip()[-1500:])
sys.exit(1 if bad or v.returncode else 0)
