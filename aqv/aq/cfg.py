"""Control-flow graph utilities over one MIR body (E2, part 2)."""


def term_succs(t, unwind=False):
    """[(label, target)] of a terminator; labels: 'goto', ('sw', value) , 'otherwise', 'ret', 'unwind'"""
    k = t["k"]
    out = []
    if k == "goto":
        out.append(("goto", t["t"]))
    elif k == "switch":
        for v, b in t["targets"]:
            out.append((("sw", v), b))
        out.append(("otherwise", t["otherwise"]))
    elif k in ("call", "drop", "assert", "false_unwind", "false_edge", "yield"):
        if t.get("t") is not None:
            out.append(("next", t["t"]))
        if unwind and t.get("unwind") is not None:
            out.append(("unwind", t["unwind"]))
        if unwind and k == "yield" and t.get("drop") is not None:
            out.append(("cdrop", t["drop"]))
    return out


class CFG:
    def __init__(self, body):
        self.body = body
        n = len(body.blocks)
        self.n = n
        self.succ = [[] for _ in range(n)]
        self.pred = [[] for _ in range(n)]
        self.labels = {}
        for i, b in enumerate(body.blocks):
            if b["cleanup"]:
                continue
            for lab, t in term_succs(b["term"]):
                if body.blocks[t]["cleanup"]:
                    continue
                if t not in self.succ[i]:
                    self.succ[i].append(t)
                    self.pred[t].append(i)
                self.labels.setdefault((i, t), []).append(lab)
        self.reachable = self.reach_from(0)
        self._dom = None
        self._back = None

    # ---- reachability ----------------------------------------------------
    def reach_from(self, start, avoid_blocks=(), avoid_edges=()):
        avoid_blocks = set(avoid_blocks)
        avoid_edges = set(avoid_edges)
        seen = set()
        if start in avoid_blocks:
            return seen
        stack = [start]
        seen.add(start)
        while stack:
            x = stack.pop()
            for y in self.succ[x]:
                if y in seen or y in avoid_blocks or (x, y) in avoid_edges:
                    continue
                seen.add(y)
                stack.append(y)
        return seen

    def can_reach(self, a, b, avoid_blocks=(), avoid_edges=()):
        """Is there a path a ->+ b (at least one edge) ?"""
        avoid_blocks = set(avoid_blocks)
        avoid_edges = set(avoid_edges)
        seen = set()
        stack = [a]
        while stack:
            x = stack.pop()
            for y in self.succ[x]:
                if (x, y) in avoid_edges or y in avoid_blocks:
                    continue
                if y == b:
                    return True
                if y not in seen:
                    seen.add(y)
                    stack.append(y)
        return False

    # ---- dominance ---------------------------------------------------------
    def block_dominates(self, a, b):
        """Every path entry -> b passes through block a (a == b counts)."""
        if a == b:
            return True
        if b not in self.reachable:
            return True
        return b not in self.reach_from(0, avoid_blocks=[a])

    def edge_dominates(self, edge, b):
        """Every path entry -> b uses CFG edge `edge`."""
        if b not in self.reachable:
            return True
        return b not in self.reach_from(0, avoid_edges=[edge])

    def edges_dominate(self, edges, b):
        """Every path entry -> b uses at least one of `edges`."""
        if b not in self.reachable:
            return True
        return b not in self.reach_from(0, avoid_edges=edges)

    def blocks_dominate(self, blocks, b):
        if b in blocks:
            return True
        if b not in self.reachable:
            return True
        return b not in self.reach_from(0, avoid_blocks=blocks)

    def exits(self):
        return [i for i in self.reachable if self.body.blocks[i]["term"]["k"] == "return"]

    def postdominated_by(self, a, blocks):
        """Every path from a to a return passes through one of `blocks` (a itself counts)."""
        if a in blocks:
            return True
        r = self.reach_from(a, avoid_blocks=blocks)
        return not any(self.body.blocks[i]["term"]["k"] == "return" for i in r)

    # ---- loops -------------------------------------------------------------
    def back_edges(self):
        if self._back is None:
            back = set()
            color = {}
            # iterative DFS
            stack = [(0, iter(self.succ[0]))]
            color[0] = 1
            while stack:
                x, it = stack[-1]
                adv = False
                for y in it:
                    if color.get(y, 0) == 0:
                        color[y] = 1
                        stack.append((y, iter(self.succ[y])))
                        adv = True
                        break
                    elif color.get(y) == 1:
                        back.add((x, y))
                if not adv:
                    color[x] = 2
                    stack.pop()
            self._back = back
        return self._back

    def switch_edge(self, block, label_pred):
        """Edges out of `block` (a switch) whose label satisfies label_pred."""
        out = []
        for t in self.succ[block]:
            labs = self.labels[(block, t)]
            if all(label_pred(l) for l in labs):
                out.append((block, t))
        return out
