"""Helpers shared by the rule files."""
import os
import re

from . import sym
from .core import Ob
from .facts import AnchorMissing, strip_generics, ty_head
from .sym import show, walk


def unit_layout(fx, unit, name, generic=None):
    """Layout of type `name` (last path segment) as seen from its defining unit."""
    u = fx.units.get(unit)
    if u is None:
        raise AnchorMissing("unit missing: " + unit)
    hits = []
    for k, v in u["layouts"].items():
        head = ty_head(k)
        if head.split("::")[-1] != name:
            continue
        if "::_::" in head or "{" in head:
            continue
        g = k[len(head):]
        gt = re.sub(r"[A-Za-z0-9_]+::", "", g).strip("<>")
        if (generic or "") == gt:
            hits.append(v)
    if len(hits) != 1:
        raise AnchorMissing("layout of %s<%s> in %s: %d candidates" % (name, generic or "", unit, len(hits)))
    return hits[0]


def paths(fx, body, **kw):
    return sym.Evaluator(fx, body, **kw).run()


def ok_paths(ps):
    """Paths returning normally whose value is not an early `?` error return."""
    out = []
    for p in ps:
        if p.end != "return":
            continue
        r = p.ret
        if isinstance(r, tuple) and r[0] == "call" and r[1].endswith("from_residual"):
            continue
        if isinstance(r, tuple) and r[0] == "agg" and r[2] == "Err":
            continue
        out.append(p)
    return out


def calls_in(e, rx):
    r = re.compile(rx) if isinstance(rx, str) else rx
    return [x for x in walk(e) if x[0] == "call" and r.search(x[1])]


def has_call(e, rx):
    return bool(calls_in(e, rx))


def unwrap_origin(e, through=None):
    """Peel value-preserving wrappers to reach the originating expression."""
    T = through or ORIGIN_TRANSPARENT
    while isinstance(e, tuple):
        if e[0] in ("unwrap", "after", "await"):
            e = e[1] if e[0] != "after" else e[3]
            continue
        if e[0] == "try":
            e = e[1]
            continue
        if e[0] == "call" and any(re.search(t, e[1]) for t in T) and e[2]:
            e = e[2][0]
            continue
        if e[0] == "cast" and e[1] in ("Transmute",):
            e = e[3]
            continue
        break
    return e


ORIGIN_TRANSPARENT = [
    r"Result::<T, E>::map_err$", r"Result::map_err$", r"Option::ok_or_else$", r"Option::ok_or$",
    r"Result::unwrap$", r"Option::unwrap$", r"Result::expect$", r"Option::expect$",
    r"Into>::into$", r"::into$", r"From<.*>>::from$", r"Option::<T>::ok_or", r"Result::<T, E>::unwrap",
    r"Option::<T>::unwrap", r"Result::<T, E>::expect", r"Option::<T>::expect",
]


def const_int(e):
    if isinstance(e, tuple) and e[0] == "c" and e[2] == "int":
        return e[3]
    return None


def const_str(e):
    if isinstance(e, tuple) and e[0] == "c" and e[2] == "str":
        return e[3]
    if isinstance(e, tuple) and e[0] == "c" and e[2] == "bytes":
        try:
            return bytes.fromhex(e[3]).decode("latin1")
        except ValueError:
            return None
    return None


def is_param(e, name):
    return isinstance(e, tuple) and e[0] == "p" and e[2] == name


def field_path(e):
    """('f',('f',p,'a'),'b') -> (root, ['a','b']); strips after-markers."""
    names = []
    while isinstance(e, tuple):
        if e[0] == "after":
            e = e[3]
        elif e[0] == "f":
            names.append(str(e[2]))
            e = e[1]
        elif e[0] == "vf":
            names.append("%s.%s" % (e[2], e[3]))
            e = e[1]
        else:
            break
    names.reverse()
    return e, names


def fp(e):
    """Render root.field.field of an expression, e.g. 'config.protocol.max_peers'."""
    root, names = field_path(e)
    r = show(root)
    return ".".join([r] + names)


def ob(rule, key, ok, body=None, line=None, detail="", sample=None, trivial=False):
    where = body.where(line) if body is not None else ""
    return Ob(rule, key, ok, where, detail, sample, trivial)


def path_desc(fx, p, maxn=8):
    a = [sym.atom_text(fx, x) for x in p.atoms]
    if len(a) > maxn:
        a = a[:maxn] + ["…"]
    return " & ".join(a) if a else "(unconditional)"


def who_calls(fx, rx, crates=None):
    """[(body, block, term)] over all bodies of calls matching rx (declared or resolved)."""
    r = re.compile(rx)
    out = []
    for b in fx.bodies.values():
        if crates is not None and b.crate not in crates:
            continue
        for i, t in b.calls(r):
            out.append((b, i, t))
    return out


def who_constructs(fx, adt_rx, variant=None, crates=None):
    r = re.compile(adt_rx)
    out = []
    for b in fx.bodies.values():
        if crates is not None and b.crate not in crates:
            continue
        for i, si, s in b.assigns():
            a = s["rv"].get("agg")
            if a and "adt" in a and r.search(a["adt"]) and (variant is None or a["variant"] == variant):
                out.append((b, i, s))
    return out


def in_test_code(body):
    return "::tests::" in body.name or body.name.endswith("::tests") or "::test::" in body.name


def unsize_source_type(body, term, argidx):
    """Type before an unsizing coercion of call argument #argidx (e.g. `&[u8; 20]` for a `&[u8]` parameter)."""
    o = term["ops"][argidx]
    pl = o.get("mv") or o.get("cp")
    if not pl or "p" in pl:
        return None
    for i, si, s in body.assigns(include_cleanup=False):
        if s["lhs"].get("l") == pl["l"] and "p" not in s["lhs"] and "cast" in s["rv"] and s["rv"]["cast"].startswith("Ptr:"):
            return s["rv"].get("from")
    return None


def writer_tokens(fx, p, body=None):
    """Output token sequence of one path of a `write_bytes`-style function.

    tokens: ('int', bits, endian-type, value-expr, line) | ('image', type-string, source-expr, line)
            | ('lit', bytes, line) | ('bytes', source-expr, line) | ('sub', callee, args, line)
    """
    toks = []
    for e in p.effects:
        if e[0] != "call":
            continue
        name, args, site, line, decl, targs = e[1], e[2], e[3], e[4], e[5], e[6]
        m = re.search(r"WriteBytesExt::write_([iu])(8|16|32|64)$", decl)
        if m:
            toks.append(("int", int(m.group(2)), m.group(1), [t for t in targs if "Endian" in t or "endian" in t],
                         args[1] if len(args) > 1 else None, line))
            continue
        if re.search(r"io::Write::write(_all)?$", decl):
            x = sym.strip_after(args[1])
            if x[0] == "call" and x[1].endswith("IntoBytes::as_bytes"):
                t = p.call_term(x[3])
                ty = t["f"]["args"][0] if t and t["f"].get("args") else None
                toks.append(("image", ty, x[2][0], line))
            elif x[0] == "c" and x[2] in ("bytes", "str"):
                b = bytes.fromhex(x[3]) if x[2] == "bytes" else x[3].encode()
                toks.append(("lit", b, line))
            else:
                src_ty = unsize_source_type(body, e[7], 1) if body is not None else None
                m = re.match(r"&(?:mut )?\[u8; (\d+)\]$", src_ty or "")
                if m:
                    toks.append(("fixed", int(m.group(1)), x, line))
                else:
                    toks.append(("bytes", x, line))
            continue
        if re.search(r"::write_bytes$", name) or re.search(r"::write_bytes$", decl):
            toks.append(("sub", name, args, line))
    return toks


_ENV_CACHE = {}


def closure_env(fx, body, depth=0):
    """Upvar name -> expression captured at the closure's construction site in its parent body
    (recursively substituted through enclosing closures). Values from the first construction found."""
    key = (id(fx), body.name)
    if key in _ENV_CACHE:
        return _ENV_CACHE[key]
    env = {}
    _ENV_CACHE[key] = env
    if body.kind not in ("closure", "coroutine") or not body.parent or depth > 6:
        return env
    parent = fx.bodies.get(body.parent)
    if parent is None or parent.unit != body.unit:
        cands = [b for b in fx.bodies.values() if b.name == body.parent and b.unit == body.unit]
        parent = cands[0] if cands else None
    if parent is None:
        return env
    penv = closure_env(fx, parent, depth + 1)
    # upvar field index -> name
    idx_name = {}
    for k, name in body.upvar_names.items():
        f = [e for e in k if e[0] == "f"]
        if f:
            idx_name[int(f[0][1])] = name
    found = None
    try:
        ps = sym.Evaluator(fx, parent, upvars=penv, max_paths=60000).run()
    except sym.PathExplosion:
        ps = []
    for p in ps:
        for m in list(p.mem.values()) + [e[2] for e in p.effects if e[0] == "call"] + [p.ret]:
            if m is None:
                continue
            items = m if isinstance(m, tuple) and m and not isinstance(m[0], str) else (m,)
            for it in items:
                for x in walk(it):
                    if x[0] == "clo" and x[1] == body.name:
                        found = x
                        break
                if found:
                    break
            if found:
                break
        if found:
            break
    if found:
        for i, cap in enumerate(found[2]):
            if i in idx_name:
                env[idx_name[i]] = cap
    return env


def eval_with_env(fx, body, **kw):
    """Paths of a closure body with upvars substituted by the expressions captured in its parents."""
    return sym.Evaluator(fx, body, upvars=closure_env(fx, body), **kw).run()


_PATH_CACHE = {}


UNROLL_FALLBACK = set()   # bodies whose deeper (thorough) unrolling exceeded the bound and were enumerated with unroll=1
UNROLL_DEEP = set()       # bodies enumerated with unroll=2


def cpaths(fx, body, unroll=None):
    """Cached path enumeration (closure upvars substituted from their construction sites).
    Quick tier: loops unrolled once.  Thorough tier: twice, falling back to once for a body whose
    path count exceeds the (smaller) bound at that depth."""
    deep = False
    if unroll is None:
        unroll = int(os.environ.get("AQV_UNROLL", "0")) or (2 if getattr(fx, "tier", "quick") == "thorough" else 1)
        deep = unroll > 1
    key = (id(fx), body.name, body.unit, unroll)
    if key not in _PATH_CACHE:
        if deep:
            try:
                _PATH_CACHE[key] = sym.Evaluator(fx, body, upvars=closure_env(fx, body), unroll=unroll, max_paths=20000).run()
                UNROLL_DEEP.add(body.short)
            except sym.PathExplosion:
                UNROLL_FALLBACK.add(body.short)
                _PATH_CACHE[key] = cpaths(fx, body, unroll=1)
        else:
            _PATH_CACHE[key] = sym.Evaluator(fx, body, upvars=closure_env(fx, body), unroll=unroll, max_paths=80000).run()
    return _PATH_CACHE[key]


def call_args(fx, caller, callee_rx):
    """Distinct (line, callee, args) of calls matching callee_rx over all paths of caller."""
    r = re.compile(callee_rx)
    seen = {}
    for p in cpaths(fx, caller):
        for e in p.effects:
            if e[0] == "call" and (r.search(e[1]) or r.search(e[5])):
                args = tuple(sym.strip_after(a) for a in e[2])
                k = (e[3][0], tuple(show(a) for a in args))
                if k not in seen:
                    seen[k] = (e[4], e[1], args)
    return list(seen.values())


_ROOTS_CACHE = {}


def param_roots(fx, body, pidx, depth=10):
    """Origins of parameter #pidx (1-based MIR local) of `body` over all workspace callers:
    [(caller body, line, expr)]; bare parameters of a caller (or of the function enclosing a calling closure)
    are chased further up."""
    key = (id(fx), body.name, body.unit, pidx)
    if key in _ROOTS_CACHE:
        return _ROOTS_CACHE[key] or []
    _ROOTS_CACHE[key] = None  # in progress (cycle guard)
    out = []
    if depth > 0:
        target = re.escape(body.short) + "$"
        for caller in list(fx.bodies.values()):
            if caller.kind == "promoted" or in_test_code(caller):
                continue
            if not any(True for _ in caller.calls(target)):
                continue
            for line, callee, args in call_args(fx, caller, target):
                if pidx - 1 >= len(args):
                    continue
                a = args[pidx - 1]
                if a[0] == "p":
                    owner = fx.bodies.get(a[3]) if len(a) > 3 else caller
                    if owner is None or owner.kind == "promoted":
                        owner = caller
                    up = param_roots(fx, owner, a[1], depth - 1)
                    out.extend(up if up else [(caller, line, a)])
                else:
                    out.append((caller, line, a))
    _ROOTS_CACHE[key] = out
    return out


def param_index(body, name):
    for l, n in body.debug_names.items():
        if n == name and 1 <= l <= body.arg_count:
            return l
    raise AnchorMissing("%s has no parameter named %s" % (body.short, name))


# ---- boolean decision tables ----------------------------------------------------

_FLIP = {"Lt": "Gt", "Ge": "Le"}           # Lt(a,b) == Gt(b,a) ; Ge(a,b) == Le(b,a)
_NEG = {"Gt": "Le", "Le": "Gt", "Eq": "Ne", "Ne": "Eq", "Lt": "Ge", "Ge": "Lt"}


def norm_bool(e, truth=True):
    """Set of atom strings (a conjunction) equivalent to `e == truth`, or None if it is a disjunction
    that cannot be expressed as one conjunction."""
    e = sym.strip_after(e)
    k = e[0]
    if k == "c" and e[2] == "int" and e[1] == "bool":
        return set() if bool(e[3]) == truth else None
    if k == "un" and e[1] == "Not":
        return norm_bool(e[2], not truth)
    if k == "call" and re.search(r"ops::Not>::not$|::not$", e[1]) and len(e[2]) == 1:
        return norm_bool(e[2][0], not truth)
    if k == "bin" and e[1] == "BitAnd" and truth:
        a, b = norm_bool(e[2], True), norm_bool(e[3], True)
        return None if a is None or b is None else a | b
    if k == "bin" and e[1] == "BitOr" and not truth:
        a, b = norm_bool(e[2], False), norm_bool(e[3], False)
        return None if a is None or b is None else a | b
    if k == "bin" and e[1] in ("Gt", "Lt", "Ge", "Le", "Eq", "Ne"):
        op, a, b = e[1], e[2], e[3]
        if not truth:
            op = _NEG[op]
        if op in _FLIP:
            op, a, b = _FLIP[op], b, a
        if op in ("Eq", "Ne"):
            a, b = sorted([a, b], key=show)
        return {"%s(%s, %s)" % (op, show(a), show(b))}
    return {("" if truth else "!") + show(e)}


def true_sets(fx, ps):
    """Decision table of a bool function: the set of conjunctions under which it returns true."""
    out = []
    for p in ps:
        if p.end != "return":
            continue
        conj = set()
        dead = False
        for a in p.atoms:
            ab = sym.atom_bool(a)
            if ab is not None:
                c = norm_bool(ab[0], ab[1])
                if c is None:
                    c = {("" if ab[1] else "!") + show(sym.strip_after(ab[0]))}
                conj |= c
            else:
                conj.add(sym.atom_text(fx, dict(a, discr=sym.strip_after(a["discr"]))))
        r = norm_bool(p.ret, True)
        if r is None:
            # returns false on this path, or a disjunction
            if sym.strip_after(p.ret)[0] == "c":
                continue
            conj.add(show(sym.strip_after(p.ret)))
        else:
            conj |= r
        if not dead:
            out.append(frozenset(conj))
    return set(out)


def _places_in(obj):
    """All place dicts (with projections) inside a statement / terminator JSON object."""
    if isinstance(obj, dict):
        if "l" in obj and isinstance(obj.get("l"), int) and "p" in obj:
            yield obj
        for v in obj.values():
            for x in _places_in(v):
                yield x
    elif isinstance(obj, list):
        for v in obj:
            for x in _places_in(v):
                yield x


def field_uses(fx, owner_rx, field, crates=None):
    """[(body, line, 'read'|'write')] of every place that projects `field` out of an ADT matching owner_rx."""
    r = re.compile(owner_rx)
    out = []
    for b in fx.bodies.values():
        if crates is not None and b.crate not in crates:
            continue
        for blk in b.blocks:
            if blk["cleanup"]:
                continue
            for s in blk["stmts"]:
                if s["k"] != "assign":
                    continue
                for pl in _places_in(s["rv"]):
                    if _proj_has(pl, r, field):
                        mutref = s["rv"].get("ref") is pl and s["rv"].get("mut") and _last_field_is(pl, field)
                        out.append((b, s.get("line"), "write" if mutref else "read"))
                lhs = s["lhs"]
                if "p" in lhs and _proj_has(lhs, r, field):
                    last = [e for e in lhs["p"] if e[0] == "f"]
                    out.append((b, s.get("line"), "write" if last and last[-1][2] == field else "read"))
            t = blk["term"]
            for pl in _places_in({k: v for k, v in t.items() if k not in ("f",)}):
                if _proj_has(pl, r, field):
                    out.append((b, t.get("line"), "read"))
    return out


def _last_field_is(pl, field):
    fs = [e for e in pl.get("p", ()) if e[0] == "f"]
    return bool(fs) and fs[-1][2] == field


def _proj_has(pl, owner_rx, field):
    for e in pl.get("p", ()):
        if e[0] == "f" and len(e) > 4 and e[2] == field and e[4] and owner_rx.search(e[4]):
            return True
    return False


def callee_names_of(t):
    f = t["f"]
    return [strip_generics(x) for x in (f.get("res"), f.get("def")) if x]


def serde_schema(fx, adt_path):
    """Wire schema of a #[derive(Serialize, Deserialize)] struct/enum recovered from the derived code's MIR:
    {'fields': [(rust name, type)], 'de': {wire name: field index}, 'required': {wire}, 'ser_always': {wire}, 'ser_maybe': {wire}}"""
    a = fx.adt(adt_path)
    full = [k for k, v in fx.adts.items() if v is a][0]
    out = {"fields": [(f["name"], f["ty"]) for f in a["variants"][0]["fields"]] if a["kind"] == "struct" else [],
           "variants": [v["name"] for v in a["variants"]] if a["kind"] == "enum" else [],
           "de": {}, "required": set(), "ser_always": set(), "ser_maybe": set()}
    vis = [b for b in fx.bodies.values() if b.name.endswith("__FieldVisitor as " + b.name.split("__FieldVisitor as ")[-1]) and
           (" for %s>::deserialize::__FieldVisitor" % full) in b.name and b.name.endswith("::visit_str") and b.kind != "promoted"]
    if len(vis) != 1:
        raise AnchorMissing("derived Deserialize field visitor of %s: %d candidates" % (adt_path, len(vis)))
    for p in sym.Evaluator(fx, vis[0]).run():
        if p.end != "return":
            continue
        r = sym.strip_after(p.ret)
        m = re.search(r"__Field::__field(\d+)\{\}", show(r))
        if not m:
            continue
        names = []
        for at in p.atoms:
            ab = sym.atom_bool(at)
            if ab and ab[1] and ab[0][0] == "call" and "PartialEq" in ab[0][1]:
                s = const_str(ab[0][2][1])
                if s is not None:
                    names.append(s)
        if names:
            out["de"][names[-1]] = int(m.group(1))
    # fields whose absence is an error: derived visit_map calls missing_field("name") (serde(default) fields do not),
    # and missing_field only fails for non-Option types
    vm = [b for b in fx.bodies.values() if (" for %s>::deserialize::__Visitor" % full) in b.name and b.name.endswith("::visit_map") and b.kind != "promoted"]
    missing = set()
    for b in vm:
        for blk in b.blocks:
            t = blk["term"]
            if t["k"] == "call" and any(n.endswith("missing_field") for n in callee_names_of(t)):
                for o in t["ops"]:
                    c = o.get("c")
                    if c and "str" in c:
                        missing.add(c["str"])
    for w, i in out["de"].items():
        if out["fields"] and i < len(out["fields"]) and not out["fields"][i][1].startswith("std::option::Option<") and (w in missing or not vm):
            out["required"].add(w)
    ser = [b for b in fx.bodies.values() if ("Serialize for %s>::serialize" % full) in b.name and b.name.endswith("::serialize") and b.kind != "promoted"]
    if len(ser) == 1:
        first = True
        for p in sym.Evaluator(fx, ser[0]).run():
            if p.end != "return" or has_call(p.ret, r"from_residual$"):
                continue
            ws = set(const_str(e[2][1]) for e in p.calls(r"serialize_field$"))
            ws |= set(const_str(e[2][3]) for e in p.calls(r"serialize_unit_variant$") if len(e[2]) > 3)
            out["ser_maybe"] |= ws
            out["ser_always"] = set(ws) if first else (out["ser_always"] & ws)
            first = False
    return out
