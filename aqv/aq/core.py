"""Rule / obligation framework: evaluation, known findings, evidence, replay files."""
import hashlib
import json
import os
import time
import traceback

from .facts import AnchorMissing
from .sym import PathExplosion

VERIF = os.path.dirname(os.path.dirname(os.path.dirname(os.path.abspath(__file__))))


class Ob:
    """One obligation: a rule instance evaluated on the current tree."""

    def __init__(self, rule, key, ok, where="", detail="", sample=None, trivial=False):
        self.rule = rule
        self.key = key
        self.ok = bool(ok)
        self.where = where
        self.detail = detail
        self.sample = sample
        self.trivial = trivial
        self.cfgset = None

    def as_dict(self):
        d = {"rule": self.rule, "key": self.key, "ok": self.ok, "where": self.where, "detail": self.detail}
        if self.sample is not None:
            d["sample"] = self.sample
        if self.cfgset:
            d["cfgset"] = self.cfgset
        return d


class Rule:
    def __init__(self, rid, fn, floor, doc):
        self.id = rid
        self.fn = fn
        self.floor = floor
        self.doc = doc


class Property:
    def __init__(self, pid, level, explanation, trusted_base, assumptions):
        self.id = pid
        self.level = level
        self.explanation = explanation
        self.trusted_base = trusted_base
        self.assumptions = assumptions
        self.rules = []

    def rule(self, rid, floor, doc=""):
        def deco(fn):
            self.rules.append(Rule(rid, fn, floor, doc or (fn.__doc__ or "").strip()))
            return fn
        return deco


def evaluate(prop, facts, cfgset, tier):
    """Run all rules of a property on one fact set. Returns list of Ob."""
    obs = []
    for r in prop.rules:
        try:
            out = list(r.fn(facts, tier) if r.fn.__code__.co_argcount >= 2 else r.fn(facts))
        except AnchorMissing as e:
            out = [Ob(r.id, "%s#anchor" % r.id, False, "", "anchor missing (fail closed): %s" % e)]
        except PathExplosion as e:
            out = [Ob(r.id, "%s#explosion" % r.id, False, "", "path enumeration bound exceeded (fail closed): %s" % e)]
        except Exception as e:  # a crashing rule must never pass silently
            tb = traceback.format_exc()
            out = [Ob(r.id, "%s#crash" % r.id, False, "", "rule crashed (fail closed): %s\n%s" % (e, tb[-1500:]))]
        n = len(out)
        if n < r.floor and all(o.ok for o in out):
            out.append(Ob(r.id, "%s#floor" % r.id, False, "",
                          "rule matched %d instances, fewer than the %d confirmed on the pinned tree (fail closed)" % (n, r.floor)))
        for o in out:
            o.cfgset = cfgset
        obs.extend(out)
    return obs


def load_known():
    p = os.path.join(VERIF, "known_findings.json")
    if not os.path.exists(p):
        return []
    with open(p) as f:
        return json.load(f)["findings"]


def _unroll_note(tier):
    from . import util
    if tier != "thorough" and not util.UNROLL_DEEP:
        return {"depth": 1}
    return {"depth": 2, "bodies_at_depth_2": sorted(util.UNROLL_DEEP),
            "fell_back_to_depth_1 (path bound exceeded at depth 2)": sorted(util.UNROLL_FALLBACK)}


def report(prop, obs, tier, seed, wall, cfgsets, checker_cmd):
    """Print findings, write replay + evidence files. Returns exit code."""
    known = [k for k in load_known() if k["property"] == prop.id and k.get("status") == "known"]
    known_keys = {k["key"]: k for k in known}
    failing = {}
    for o in obs:
        if not o.ok:
            failing.setdefault(o.key, o)
    violations = []
    printed_known = set()
    for key, o in sorted(failing.items()):
        if key in known_keys:
            if key not in printed_known:
                print("KNOWN-FINDING: property=%s %s [%s]" % (prop.id, known_keys[key]["what"], key))
                printed_known.add(key)
        else:
            violations.append(o)
    rdir = os.path.join(os.environ.get("AQV_REPLAY_DIR") or os.path.join(VERIF, "replay"), prop.id)
    for o in violations:
        os.makedirs(rdir, exist_ok=True)
        h = hashlib.sha1(o.key.encode()).hexdigest()[:12]
        path = os.path.join(rdir, h + ".json")
        with open(path, "w") as f:
            json.dump({"property": prop.id, "tier": tier, "obligation": o.as_dict()}, f, indent=1)
        print("--- %s %s\n    rule: %s\n    at:   %s\n    why:  %s" % (prop.id, o.key, o.rule, o.where, o.detail))
        print("VIOLATION property=%s replay=%s" % (prop.id, path))

    distinct = {}
    for o in obs:
        distinct.setdefault(o.key, o)
    nontrivial = [o for o in distinct.values() if not o.trivial]
    discharged = [o for o in distinct.values() if o.ok]
    samples = []
    seen_rules = set()
    for o in distinct.values():
        if o.rule not in seen_rules and o.sample is not None:
            seen_rules.add(o.rule)
            samples.append({"rule": o.rule, "key": o.key, "where": o.where, "ok": o.ok, "extracted": o.sample})
    for o in distinct.values():
        if len(samples) >= 12:
            break
        if o.sample is None and o.rule not in seen_rules:
            seen_rules.add(o.rule)
            samples.append({"rule": o.rule, "key": o.key, "where": o.where, "ok": o.ok, "detail": o.detail[:300]})
    per_rule = {}
    for o in distinct.values():
        e = per_rule.setdefault(o.rule, {"obligations": 0, "discharged": 0})
        e["obligations"] += 1
        e["discharged"] += 1 if o.ok else 0
    level = prop.level
    n_known = len(printed_known)
    cov = {
        "evaluations": len(obs),
        "distinct_nontrivial": len(nontrivial),
        "rule": "each obligation is one rule instance (rule id + function/site key, no line numbers) evaluated on MIR facts "
                "regenerated from /repo's working tree; distinct = distinct instance keys; non-trivial = the instance "
                "required dataflow/path/layout extraction rather than a bare existence test",
        "samples": samples,
        "obligations": len(distinct),
        "discharged": len(discharged),
        "checker_cmd": checker_cmd,
        "trusted_base": prop.trusted_base,
        "explanation": prop.explanation,
        "exhaustive": True,
        "per_rule": per_rule,
        "cfgsets": cfgsets,
        "known_findings_reported": sorted(printed_known),
        "rules": {r.id: {"floor": r.floor, "doc": r.doc} for r in prop.rules},
        "loop_unrolling": _unroll_note(tier),
    }
    ev = {
        "property_id": prop.id,
        "tier": tier,
        "seed": seed,
        "level": level,
        "coverage": cov,
        "assumptions": prop.assumptions,
        "wall_s": round(wall, 2),
        "violations": len(violations),
    }
    # the self-test harness runs checks on deliberately broken trees: it must not overwrite the evidence of the real tree
    edir = os.environ.get("AQV_EVIDENCE_DIR") or os.path.join(VERIF, "evidence")
    os.makedirs(edir, exist_ok=True)
    with open(os.path.join(edir, prop.id + ".json"), "w") as f:
        json.dump(ev, f, indent=1)
    print("%s: %d obligations (%d distinct, %d discharged), %d known finding(s), %d violation(s) [%s, %.1fs]" % (
        prop.id, len(obs), len(distinct), len(discharged), n_known, len(violations), tier, wall))
    return 1 if violations else 0
