"""Whole-workspace call graph over resolved callees (plus closure/coroutine containment)."""
import re

from .facts import callee_names, strip_generics


def build(fx, crates=None):
    succ = {}
    for b in fx.bodies.values():
        if b.kind == "promoted" or (crates is not None and b.crate not in crates):
            continue
        out = succ.setdefault(b.name, set())
        for blk in b.blocks:
            if blk["cleanup"]:
                continue
            t = blk["term"]
            if t["k"] in ("call", "tailcall"):
                for n in callee_names(t):
                    for cand in fx.by_short.get(strip_generics(n), []):
                        out.add(cand.name)
                # function items passed as values
                for o in t["ops"]:
                    c = o.get("c")
                    if c and "fn" in c:
                        for cand in fx.by_short.get(strip_generics(c.get("res") or c["fn"]), []):
                            out.add(cand.name)
            for s in blk["stmts"]:
                if s["k"] == "assign":
                    a = s["rv"].get("agg")
                    if a:
                        for k in ("closure", "coroutine", "coroutine_closure"):
                            if k in a and a[k] in fx.bodies:
                                out.add(a[k])
                    u = s["rv"].get("use", {}).get("c") if "use" in s["rv"] else None
                    if u and "fn" in u:
                        for cand in fx.by_short.get(strip_generics(u.get("res") or u["fn"]), []):
                            out.add(cand.name)
    return succ


def reachable(succ, roots):
    seen = set(roots)
    stack = list(roots)
    while stack:
        x = stack.pop()
        for y in succ.get(x, ()):
            if y not in seen:
                seen.add(y)
                stack.append(y)
    return seen
