"""Guard-region / lock-order analysis over MIR (may-hold dataflow on RAII guard locals)."""
import re

from .facts import callee_name, strip_generics

GUARD_RX = re.compile(r"(RwLock(Read|Write|UpgradableRead)Guard|MutexGuard|MappedRwLock\w*Guard)<")
ACQ_RX = re.compile(r"lock_api::RwLock.*::(read|write|upgradable_read|try_read|try_write|try_upgradable_read|read_recursive|read_arc|write_arc)\w*$|"
                    r"lock_api::Mutex.*::(lock|try_lock)\w*$|RwLockUpgradableReadGuard.*::(upgrade|try_upgrade|with_upgraded)\w*$|"
                    r"std::sync::(RwLock|Mutex).*::(read|write|lock)$")


def guard_ty(body, l):
    t = body.local_ty(l)
    return t if GUARD_RX.match(t.replace("parking_lot::lock_api::", "").replace("std::sync::", "").lstrip("&")) or GUARD_RX.search(t.split("<")[0] + "<") else None


def is_guard_local(body, l):
    t = body.local_ty(l)
    head = t.split("<")[0]
    return bool(re.search(r"(RwLock(Read|Write|UpgradableRead)Guard|MutexGuard)$", head)) and not t.startswith("&")


def held_sets(body, classify):
    """May-hold dataflow. Returns {block: set of (local, class, mode, acq_line)} at block entry,
    plus per-call 'held at the call' list [(block, term, held)]"""
    n = len(body.blocks)
    IN = [None] * n
    IN[0] = frozenset()
    work = [0]
    at_call = {}
    while work:
        b = work.pop()
        held = set(IN[b])
        blk = body.blocks[b]
        if blk["cleanup"]:
            continue
        for s in blk["stmts"]:
            if s["k"] != "assign":
                continue
            rv = s["rv"]
            u = rv.get("use")
            if u and "mv" in u and "p" not in u["mv"] and "p" not in s["lhs"]:
                src, dst = u["mv"]["l"], s["lhs"]["l"]
                for h in list(held):
                    if h[0] == src:
                        held.discard(h)
                        held.add((dst,) + h[1:])
        t = blk["term"]
        out = set(held)
        succs = []
        if t["k"] == "call":
            at_call[b] = frozenset(held)
            for o in t["ops"]:
                if "mv" in o and "p" not in o["mv"]:
                    for h in list(out):
                        if h[0] == o["mv"]["l"]:
                            out.discard(h)  # guard moved into the callee (drop(), upgrade(), ...)
            d = t["dest"]
            if "p" not in d and is_guard_local(body, d["l"]):
                cls, mode = classify(body.local_ty(d["l"]))
                out.add((d["l"], cls, mode, t.get("line")))
            if t.get("t") is not None:
                succs.append(t["t"])
        elif t["k"] == "drop":
            pl = t["place"]
            if "p" not in pl:
                for h in list(out):
                    if h[0] == pl["l"]:
                        out.discard(h)
            succs.append(t["t"])
        elif t["k"] == "switch":
            succs = [x[1] for x in t["targets"]] + [t["otherwise"]]
        elif t["k"] in ("goto", "false_edge", "false_unwind", "assert", "yield"):
            if t.get("t") is not None:
                succs.append(t["t"])
        fo = frozenset(out)
        for s in succs:
            if body.blocks[s]["cleanup"]:
                continue
            if IN[s] is None:
                IN[s] = fo
                work.append(s)
            elif not fo <= IN[s]:
                IN[s] = IN[s] | fo
                work.append(s)
    return IN, at_call


def analyse(fx, bodies, classify, blocking_rx=None):
    """Lock-order facts for a set of bodies.
    Returns dict(acquisitions=[(fn, line, class, mode, held)], edges=[(held class, acquired class, fn, line, how)],
                 blocking=[(fn, line, callee, held)], calls=[(fn, line, callee, held)])"""
    direct = {}   # body name -> set(classes acquired directly)
    info = {}
    for b in bodies:
        IN, at_call = held_sets(b, classify)
        info[b.name] = (b, IN, at_call)
        acq = set()
        for blk_i, held in at_call.items():
            t = b.blocks[blk_i]["term"]
            d = t["dest"]
            if "p" not in d and is_guard_local(b, d["l"]):
                acq.add(classify(b.local_ty(d["l"]))[0])
        direct[b.name] = acq
    # may_acquire fixpoint over calls between the analysed bodies and closure construction
    by_short = {}
    for b in bodies:
        by_short.setdefault(b.short, []).append(b)
    callees = {b.name: set() for b in bodies}
    for b in bodies:
        for i, blk in enumerate(b.blocks):
            t = blk["term"]
            if t["k"] == "call" and not blk["cleanup"]:
                for cand in by_short.get(strip_generics(callee_name(t)), []):
                    callees[b.name].add(cand.name)
        for c in bodies:
            if c.parent == b.name and c.kind in ("closure", "coroutine"):
                callees[b.name].add(c.name)
    may = {k: set(v) for k, v in direct.items()}
    changed = True
    while changed:
        changed = False
        for k, cs in callees.items():
            for c in cs:
                if not may[c] <= may[k]:
                    may[k] |= may[c]
                    changed = True
    res = {"acquisitions": [], "edges": [], "blocking": [], "calls": [], "may": may}
    for b in bodies:
        _, IN, at_call = info[b.name]
        for blk_i, held in sorted(at_call.items()):
            t = b.blocks[blk_i]["term"]
            name = strip_generics(callee_name(t))
            d = t["dest"]
            consumed = set(o["mv"]["l"] for o in t["ops"] if "mv" in o and "p" not in o["mv"])
            hs = [h for h in held]
            res["calls"].append((b, t.get("line"), name, hs))
            if "p" not in d and is_guard_local(b, d["l"]):
                cls, mode = classify(b.local_ty(d["l"]))
                others = [h for h in hs if h[0] not in consumed]
                res["acquisitions"].append((b, t.get("line"), cls, mode, hs, name))
                for h in others:
                    res["edges"].append((h[1], cls, b, t.get("line"), "%s.%s held (line %s) while acquiring %s.%s" % (h[1], h[2], h[3], cls, mode)))
            else:
                for cand in by_short.get(name, []):
                    for cls in may[cand.name]:
                        for h in hs:
                            if h[0] not in consumed:
                                res["edges"].append((h[1], cls, b, t.get("line"), "%s.%s held (line %s) across call to %s which may acquire %s" % (h[1], h[2], h[3], cand.short.split("::")[-1], cls)))
            if blocking_rx is not None and hs and blocking_rx.search(name):
                res["blocking"].append((b, t.get("line"), name, hs))
        # closures constructed while a guard is held may run under it
        for i, blk in enumerate(b.blocks):
            if blk["cleanup"] or IN[i] is None:
                continue
            for s in blk["stmts"]:
                if s["k"] == "assign" and "agg" in s["rv"] and ("closure" in s["rv"]["agg"] or "coroutine" in s["rv"]["agg"]):
                    cn = s["rv"]["agg"].get("closure") or s["rv"]["agg"].get("coroutine")
                    # held set at this statement = IN (moves within the block before it are rare for guards)
                    for h in IN[i]:
                        for cls in may.get(cn, ()):
                            res["edges"].append((h[1], cls, b, s.get("line"), "%s.%s held (line %s) while closure %s (may acquire %s) is handed out" % (h[1], h[2], h[3], cn.split("::")[-1], cls)))
    return res
