"""Loading and indexing of the MIR fact files (E2, part 1)."""
import glob
import json
import os
import re


class AnchorMissing(Exception):
    """A rule named a function / type / constant that the tree no longer has: fail closed."""


STD_ENUMS = {
    "Option": {0: "None", 1: "Some"},
    "Result": {0: "Ok", 1: "Err"},
    "ControlFlow": {0: "Continue", 1: "Break"},
    "Poll": {0: "Ready", 1: "Pending"},
    "Ordering": {-1: "Less", 255: "Less", 0: "Equal", 1: "Greater"},
    "IpAddr": {0: "V4", 1: "V6"},
    "SocketAddr": {0: "V4", 1: "V6"},
    "Entry": {0: "Occupied", 1: "Vacant"},
    "Cow": {0: "Borrowed", 1: "Owned"},
}


def strip_generics(s):
    """Remove generic argument lists: `a::B::<I>::f` -> `a::B::f`, `Vec<T>` -> `Vec`.
    Qualified-self segments (`<T as Trait>`, `<impl Trait for T>`) are kept, with their inner generics removed."""
    out = []
    i = 0
    n = len(s)
    while i < n:
        ch = s[i]
        if ch == "<":
            # find matching '>'
            depth = 0
            j = i
            while j < n:
                if s[j] == "<":
                    depth += 1
                elif s[j] == ">" and not (j > 0 and s[j - 1] == "-"):
                    depth -= 1
                    if depth == 0:
                        break
                j += 1
            inner = s[i + 1:j]
            qualified = (i == 0 or s[i - 1] == ":" or s[i - 1] in " (&[,") and (
                inner.startswith("impl ") or _has_top_level(inner, " as "))
            if qualified:
                out.append("<" + strip_generics(inner) + ">")
            i = j + 1
            continue
        out.append(ch)
        i += 1
    r = "".join(out)
    while "::::" in r:
        r = r.replace("::::", "::")
    return r.rstrip(":")


def _has_top_level(s, needle):
    depth = 0
    i = 0
    while i < len(s):
        if s[i] == "<":
            depth += 1
        elif s[i] == ">" and not (i > 0 and s[i - 1] == "-"):
            depth -= 1
        elif depth == 0 and s.startswith(needle, i):
            return True
        i += 1
    return False


def ty_head(ty):
    """`&mut foo::Bar<X>` -> `foo::Bar`"""
    t = ty.strip()
    while True:
        if t.startswith("&"):
            t = t[1:].lstrip()
            if t.startswith("'"):
                t = t.split(" ", 1)[1] if " " in t else t
            if t.startswith("mut "):
                t = t[4:]
            continue
        if t.startswith("*const ") or t.startswith("*mut "):
            t = t.split(" ", 1)[1]
            continue
        break
    return strip_generics(t)


class Body:
    def __init__(self, name, data, crate, unit):
        self.name = name
        self.d = data
        self.crate = crate
        self.unit = unit  # e.g. aquatic_udp.lib
        self.blocks = data["blocks"]
        self.locals = data["locals"]
        self.kind = data["kind"]
        self.parent = data.get("parent")
        self.file = data["span"]["file"]
        self.lo = data["span"]["lo"]
        self.hi = data["span"]["hi"]
        self.arg_count = data["arg_count"]
        self._cfg = None
        self.debug_names = {}
        self.upvar_names = {}
        self._raw_debug = data.get("debug", [])
        for v in data.get("debug", []):
            pl = v.get("place")
            if not pl:
                continue
            if "p" not in pl:
                self.debug_names.setdefault(pl["l"], v["name"])
            elif pl["l"] == 1 and self.kind in ("closure", "coroutine"):
                key = tuple((e[0], e[1] if len(e) > 1 else None) for e in pl["p"])
                self.upvar_names[key] = v["name"]

    @property
    def short(self):
        return strip_generics(self.name)

    def pin_names(self, pinned):
        """Render parameters and captured variables under the names they had on the pinned tree (by position), so that a
        behaviour-preserving rename of a parameter or captured local does not change any extracted expression."""
        ent = pinned.get(self.short)
        if not ent:
            return
        cur_params = [self.debug_names.get(i) for i in range(1, self.arg_count + 1)]
        if len(ent.get("params", [])) == len(cur_params):
            for i, n in enumerate(ent["params"]):
                if n is not None and cur_params[i] is not None:
                    self.debug_names[i + 1] = n
        # upvars by capture index
        cur = {}
        for key, name in self.upvar_names.items():
            f = [e for e in key if e[0] == "f"]
            if f:
                cur[int(f[0][1])] = key
        if ent.get("upvars") and len(ent["upvars"]) == len(cur):
            for idx, n in ent["upvars"].items():
                k = cur.get(int(idx))
                if k is not None:
                    self.upvar_names[k] = n

    def where(self, line=None):
        return "%s:%s" % (self.file, line if line else self.lo)

    @property
    def cfg(self):
        if self._cfg is None:
            from . import cfg
            self._cfg = cfg.CFG(self)
        return self._cfg

    def terms(self, kind=None):
        for i, b in enumerate(self.blocks):
            t = b["term"]
            if kind is None or t["k"] == kind:
                yield i, t

    def calls(self, pattern=None, include_cleanup=False):
        """(block index, terminator) of calls whose declared or resolved callee matches."""
        rx = re.compile(pattern) if isinstance(pattern, str) else pattern
        for i, b in enumerate(self.blocks):
            if b["cleanup"] and not include_cleanup:
                continue
            t = b["term"]
            if t["k"] != "call":
                continue
            if rx is None or callee_matches(t, rx):
                yield i, t

    def assigns(self, include_cleanup=False):
        for i, b in enumerate(self.blocks):
            if b["cleanup"] and not include_cleanup:
                continue
            for si, s in enumerate(b["stmts"]):
                if s["k"] == "assign":
                    yield i, si, s

    def local_ty(self, l):
        return self.locals[l]["ty"]


def callee_names(t):
    f = t["f"]
    names = []
    if "res" in f:
        names.append(f["res"])
    if "def" in f:
        names.append(f["def"])
    return names


def callee_name(t):
    n = callee_names(t)
    return n[0] if n else "<indirect>"


def callee_matches(t, rx):
    return any(rx.search(strip_generics(n)) or rx.search(n) for n in callee_names(t))


class Facts:
    def __init__(self, directory):
        self.dir = directory
        self.units = {}
        self.bodies = {}
        self.adts = {}
        self.consts = {}
        self.layouts = {}
        self.impls = []
        self.by_short = {}
        files = sorted(glob.glob(os.path.join(directory, "*.json")))
        if not files:
            raise AnchorMissing("no fact files in " + directory)
        for f in files:
            unit = os.path.basename(f)[:-5]
            with open(f) as fh:
                d = json.load(fh)
            self.units[unit] = d
            crate = d["crate"]
            for name, b in d["bodies"].items():
                body = Body(name, b, crate, unit)
                key = name if name not in self.bodies else "%s@%s" % (name, unit)
                self.bodies[key] = body
                self.by_short.setdefault(body.short, []).append(body)
            for name, a in d["adts"].items():
                a["crate"] = crate
                self.adts[name] = a
            for name, c in d["consts"].items():
                self.consts[name] = c
            for name, l in d["layouts"].items():
                self.layouts.setdefault(name, l)
            for i in d["impls"]:
                i["crate"] = crate
                self.impls.append(i)
        pin = os.path.join(os.path.dirname(os.path.dirname(os.path.abspath(__file__))), "tables", "pinned_names.json")
        if os.path.exists(pin) and not os.environ.get("AQV_NO_PIN"):
            with open(pin) as fh:
                pinned = json.load(fh)
            for b in self.bodies.values():
                if b.kind != "promoted":
                    b.pin_names(pinned)
        self._adt_by_tail = {}
        for name in self.adts:
            parts = name.split("::")
            self._adt_by_tail.setdefault((parts[0], parts[-1]), []).append(name)

    # ---- lookups -------------------------------------------------------
    def fn(self, short):
        """Body by generic-stripped def path, e.g. aquatic_udp::swarm::PeerMap::announce"""
        c = self.by_short.get(short)
        if not c:
            raise AnchorMissing("function not found: " + short)
        if len(c) > 1:
            # lib and bin of the same crate never share a def path; different generics might
            raise AnchorMissing("ambiguous function: %s (%d bodies)" % (short, len(c)))
        return c[0]

    def fn_opt(self, short):
        c = self.by_short.get(short)
        return c[0] if c and len(c) == 1 else None

    def fns(self, pattern, crates=None, minimum=0):
        rx = re.compile(pattern)
        out = [b for b in self.bodies.values()
               if rx.search(b.short) and (crates is None or b.crate in crates)]
        if len(out) < minimum:
            raise AnchorMissing("expected >= %d functions matching %s, found %d" % (minimum, pattern, len(out)))
        return out

    def children(self, body, kinds=("closure", "coroutine")):
        return [b for b in self.bodies.values() if b.parent == body.name and b.kind in kinds and b.unit == body.unit]

    def promoted(self, body, n):
        key = "%s::{promoted#%d}" % (body.name, n)
        b = self.bodies.get(key)
        if b is None or b.unit != body.unit:
            b = self.bodies.get("%s@%s" % (key, body.unit))
        if b is None:
            raise AnchorMissing("promoted body missing: " + key)
        return b

    def adt(self, path):
        """ADT facts by def path; tolerant of re-export paths (crate + final segment)."""
        p = strip_generics(path)
        if p in self.adts:
            return self.adts[p]
        parts = p.split("::")
        c = self._adt_by_tail.get((parts[0], parts[-1]), [])
        if len(c) == 1:
            return self.adts[c[0]]
        raise AnchorMissing("type not found: " + path)

    def adt_opt(self, path):
        try:
            return self.adt(path)
        except AnchorMissing:
            return None

    def const(self, path):
        if path in self.consts:
            return self.consts[path]
        parts = path.split("::")
        c = [k for k in self.consts if k.split("::")[0] == parts[0] and k.split("::")[-1] == parts[-1]]
        if len(c) == 1:
            return self.consts[c[0]]
        raise AnchorMissing("constant not found: " + path)

    def const_int(self, path):
        c = self.const(path)
        if "int" not in c:
            raise AnchorMissing("constant has no integer value: " + path)
        return c["int"]

    def layout(self, tystr):
        if tystr in self.layouts:
            return self.layouts[tystr]
        # tolerate re-export paths
        head = ty_head(tystr)
        tail = head.split("::")[-1]
        gen = tystr[len(head):] if tystr.startswith(head) else ""
        c = [k for k in self.layouts if ty_head(k).split("::")[-1] == tail
             and ty_head(k).split("::")[0] == head.split("::")[0]
             and strip_tail_generic(k) == strip_tail_generic_of(gen)]
        if len(c) == 1:
            return self.layouts[c[0]]
        raise AnchorMissing("layout not found: " + tystr)

    def variant_name(self, ty, value):
        """Name of the variant of enum type `ty` (type string) with discriminant `value`."""
        head = ty_head(ty)
        tail = head.split("::")[-1]
        a = self.adt_opt(head)
        if a and a["kind"] == "enum":
            for v in a["variants"]:
                if int(v["discr"]) == value:
                    return v["name"]
        if tail in STD_ENUMS and value in STD_ENUMS[tail]:
            return STD_ENUMS[tail][value]
        return None


def strip_tail_generic(k):
    i = k.find("<")
    return re.sub(r"[A-Za-z0-9_]+::", "", k[i:]) if i >= 0 else ""


def strip_tail_generic_of(gen):
    return re.sub(r"[A-Za-z0-9_]+::", "", gen)
