"""Symbolic path enumeration over MIR bodies (E2, part 3).

Nothing is executed and nothing is solved: a path is an acyclic (loops bounded) walk through
the CFG along which every place is mapped to an *expression tree* over parameters, constants
and call results.  Rules inspect the branch atoms, the effect list and the returned expression
of every path.

Expression forms (tuples):
  ('c', ty, kind, value)            constant; kind in int|str|bytes|variant|fn|zst|opaque|promoted
  ('p', idx, name)                  parameter
  ('up', name)                      closure / coroutine upvar
  ('u', local)                      never-assigned local (e.g. coroutine resume argument)
  ('call', callee, args, site)      result of a call; site = (block, visit#)
  ('f', base, name)                 field
  ('vf', base, variant, name)       field of an enum variant (downcast + field)
  ('bin', op, a, b, ty) ('un', op, a) ('cast', kind, ty, a, from_ty) ('discr', a) ('len', a)
  ('agg', adt, variant, ((field, expr)...)) ('tup', exprs) ('arr', exprs) ('clo', def, captures)
  ('idx', base, index) ('after', callee, site, old)   value possibly mutated through &mut by a call
  ('await', fut) ('unwrap', x)       normalised forms of poll/Ready and Try::branch/Continue
"""
import re

from . import cfg as cfgmod
from .facts import callee_name, strip_generics, ty_head


class PathExplosion(Exception):
    pass


TRANSPARENT_CALLS = (
    "std::ops::Deref::deref", "std::ops::DerefMut::deref_mut", "std::borrow::Borrow::borrow",
    "std::borrow::BorrowMut::borrow_mut", "std::convert::AsRef::as_ref", "std::convert::AsMut::as_mut",
    "std::clone::Clone::clone", "std::pin::Pin::<Ptr>::new_unchecked", "std::pin::Pin::<Ptr>::new",
    "std::pin::Pin::<&'a mut T>::get_unchecked_mut", "std::future::IntoFuture::into_future",
    "std::pin::Pin::<Ptr>::as_mut", "std::pin::Pin::<&'a mut T>::get_mut",
)


_TRANSPARENT_RX = re.compile(
    r"(ops::Deref::deref|ops::DerefMut::deref_mut|borrow::Borrow::borrow|borrow::BorrowMut::borrow_mut|"
    r"convert::AsRef::as_ref|convert::AsMut::as_mut|clone::Clone::clone|future::IntoFuture::into_future|"
    r"pin::Pin::(new_unchecked|new|get_unchecked_mut|as_mut|get_mut|into_inner))$")


def short_callee(t):
    """Canonical callee label: resolved impl method when known, else the declared path."""
    f = t["f"]
    c = f.get("_sc")
    if c is None:
        if "def" not in f:
            c = "<indirect>"
        else:
            r = f.get("res")
            c = strip_generics(r if r else f["def"])
        f["_sc"] = c
    return c


def decl_callee(t):
    f = t["f"]
    c = f.get("_dc")
    if c is None:
        c = strip_generics(f["def"]) if "def" in f else "<indirect>"
        f["_dc"] = c
    return c


class State:
    __slots__ = ("mem", "ptr", "ptrmut", "atoms", "effects", "blocks", "visits", "backs", "proots")

    def __init__(self):
        self.mem = {}
        self.ptr = {}
        self.ptrmut = {}
        self.atoms = []
        self.effects = []
        self.blocks = []
        self.visits = {}
        self.backs = {}
        self.proots = set()

    def fork(self):
        s = State()
        s.mem = dict(self.mem)
        s.ptr = dict(self.ptr)
        s.ptrmut = dict(self.ptrmut)
        s.atoms = list(self.atoms)
        s.effects = list(self.effects)
        s.blocks = list(self.blocks)
        s.visits = dict(self.visits)
        s.backs = dict(self.backs)
        s.proots = set(self.proots)
        return s


class Path:
    def __init__(self, st, end, ret):
        self.blocks = st.blocks
        self.atoms = st.atoms
        self.effects = st.effects
        self.end = end  # 'return' | 'diverge' | 'unreachable'
        self.ret = ret
        self.mem = st.mem

    def calls(self, rx=None):
        import re
        r = re.compile(rx) if isinstance(rx, str) else rx
        return [e for e in self.effects if e[0] == "call" and (r is None or r.search(e[1]))]

    def call_term(self, site):
        for e in self.effects:
            if e[0] == "call" and e[3] == site:
                return e[7]
        return None

    def took(self, block, label=None):
        for a in self.atoms:
            if a["block"] == block and (label is None or a["label"] == label):
                return True
        return False


class Evaluator:
    def __init__(self, facts, body, unroll=1, max_paths=20000, transparent=TRANSPARENT_CALLS,
                 params=None, upvars=None, stop_at=None, follow=None):
        self.facts = facts
        self.body = body
        self.cfg = body.cfg
        self.unroll = unroll
        self.max_paths = max_paths
        self.transparent = set(strip_generics(x) for x in transparent)
        self.params = params or {}
        self.upvars = upvars or {}
        self.stop_at = stop_at  # optional set of blocks at which enumeration stops (path end 'stop')
        self.follow = follow    # optional predicate(block)->bool restricting enumeration
        self._loops = None
        self.paths_out = []

    # ---- loops ---------------------------------------------------------------
    def loops(self):
        """header -> (set of blocks in the natural loops of back edges into header, is_await)"""
        if self._loops is None:
            L = {}
            for (x, h) in self.cfg.back_edges():
                body = {h, x}
                stack = [x]
                while stack:
                    y = stack.pop()
                    if y == h:
                        continue
                    for p in self.cfg.pred[y]:
                        if p not in body:
                            body.add(p)
                            stack.append(p)
                ent = L.setdefault(h, [set(), False, set()])
                ent[0] |= body
                ent[2].add((x, h))
            for h, ent in L.items():
                ent[1] = all(self._await_back_edge(x) for (x, _h) in ent[2])
            # precompute "can leave loop without a back edge into h"
            for h, ent in L.items():
                body, _, backs = ent
                ok = set()
                changed = True
                while changed:
                    changed = False
                    for b in body:
                        if b in ok:
                            continue
                        for s in self.cfg.succ[b]:
                            if (b, s) in backs:
                                continue
                            if s not in body or s in ok:
                                ok.add(b)
                                changed = True
                                break
                ent.append(ok)
            self._loops = L
        return self._loops

    def _await_back_edge(self, x):
        """The back edge leaves the resume side of a `yield` (the Pending arm of an .await poll loop)."""
        for _ in range(4):
            t = self.body.blocks[x]["term"]
            if t["k"] == "yield":
                return True
            if t["k"] != "goto":
                return False
            preds = self.cfg.pred[x]
            if len(preds) != 1:
                return False
            x = preds[0]
        return False

    # ---- places ----------------------------------------------------------------
    def canon(self, st, l, projs):
        """Canonical (root local, projection tuple) of a place, through tracked pointers."""
        out = []
        projs = list(projs)
        guard = 0
        while projs and projs[0][0] == "d" and l in st.ptr and guard < 50:
            r, rp = st.ptr[l]
            l = r
            projs = list(rp_raw(rp)) + projs[1:]
            guard += 1
        for e in projs:
            k = e[0]
            if k == "d":
                continue
            if k == "f":
                out.append(("f", e[2] if len(e) > 2 and e[2] is not None else str(e[1])))
            elif k == "dc":
                out.append(("dc", e[2] if len(e) > 2 and e[2] is not None else e[1]))
            elif k == "i":
                iv = self.read_canon(st, e[1], ()) if (e[1], ()) in st.mem else ("local", e[1])
                out.append(("i", e[1], iv))
            elif k == "c":
                out.append(("ci", e[1], e[3]))
            elif k == "s":
                out.append(("sub", e[1], e[2], e[3]))
            elif k == "cf":  # already canonical field
                out.append(("f", e[1]))
            elif k == "cdc":
                out.append(("dc", e[1]))
            elif k == "ci":
                out.append(e)
            elif k == "sub":
                out.append(e)
        return l, tuple(out)

    def base_value(self, st, l):
        key = (l, ())
        if key in st.mem:
            return st.mem[key]
        if 1 <= l <= self.body.arg_count:
            if l in self.params:
                return self.params[l]
            return ("p", l, self.body.debug_names.get(l, "_%d" % l), self.body.name)
        return ("u", l)

    def read_canon(self, st, root, cproj):
        # closure upvars
        if root == 1 and self.body.upvar_names and cproj and (1, ()) not in st.mem:
            k = ("f", cproj[0][1]) if cproj[0][0] == "f" else None
            if k is not None:
                for key, name in self.body.upvar_names.items():
                    fk = [e for e in key if e[0] == "f"]
                    if fk and str(fk[0][1]) == str(cproj[0][1]):
                        base = self.upvars.get(name, ("up", name))
                        return project(self, base, cproj[1:])
        for k in range(len(cproj), -1, -1):
            key = (root, cproj[:k])
            if k == 0:
                return project(self, self.base_value(st, root), cproj)
            if key in st.mem:
                return project(self, st.mem[key], cproj[k:])

    def read_place(self, st, pl):
        root, cproj = self.canon(st, pl["l"], pl.get("p", ()))
        return self.read_canon(st, root, cproj)

    def write_place(self, st, pl, val, line=None, record=True):
        root, cproj = self.canon(st, pl["l"], pl.get("p", ()))
        if (cproj or pl.get("p")) and record:
            lv = self.read_canon(st, root, cproj)
            st.effects.append(("write", lv, val, line, root, cproj))
        if root in st.proots:
            for key in [k for k in st.mem if k[0] == root and len(k[1]) > len(cproj) and k[1][:len(cproj)] == cproj]:
                del st.mem[key]
        st.mem[(root, cproj)] = val
        if cproj:
            st.proots.add(root)
        if not cproj:
            st.ptr.pop(root, None)
            st.ptrmut.pop(root, None)

    def operand(self, st, o):
        if "c" in o:
            return const_expr(o["c"])
        pl = o.get("cp") or o.get("mv")
        return self.read_place(st, pl)

    # ---- statements ---------------------------------------------------------
    def rvalue(self, st, rv, lhs):
        if "use" in rv:
            o = rv["use"]
            pl = o.get("cp") or o.get("mv")
            if pl is not None and "p" not in pl and pl["l"] in st.ptr and "p" not in lhs:
                # copying a tracked pointer
                return self.operand(st, o), ("ptr", st.ptr[pl["l"]], st.ptrmut.get(pl["l"], False))
            return self.operand(st, o), None
        if "ref" in rv:
            pl = rv["ref"]
            root, cproj = self.canon(st, pl["l"], pl.get("p", ()))
            val = self.read_canon(st, root, cproj)
            return val, ("ptr", (root, cproj), bool(rv.get("mut")))
        if "bin" in rv:
            a = self.operand(st, rv["a"])
            b = self.operand(st, rv["b"])
            op = rv["bin"]
            if op.endswith("WithOverflow"):
                return ("chk", op[:-12], a, b, rv.get("ty")), None
            return ("bin", op, a, b, rv.get("ty")), None
        if "un" in rv:
            a = self.operand(st, rv["a"])
            if rv["un"] == "PtrMetadata":
                return ("len", a), None
            return ("un", rv["un"], a), None
        if "cast" in rv:
            a = self.operand(st, rv["op"])
            k = rv["cast"]
            if k.startswith("Ptr:") or k in ("PtrToPtr", "Subtype"):
                # unsizing etc.: value-transparent; keep pointer tracking
                o = rv["op"]
                pl = o.get("cp") or o.get("mv")
                if pl is not None and "p" not in pl and pl["l"] in st.ptr and "p" not in lhs:
                    return a, ("ptr", st.ptr[pl["l"]], st.ptrmut.get(pl["l"], False))
                return a, None
            return ("cast", k, rv["ty"], a, rv.get("from")), None
        if "discr" in rv:
            pl = rv["discr"]
            v = self.read_place(st, pl)
            return ("discr", v, self.place_ty(pl)), None
        if "len" in rv:
            return ("len", self.read_place(st, rv["len"])), None
        if "agg" in rv:
            a = rv["agg"]
            ops = tuple(self.operand(st, o) for o in rv["ops"])
            if "adt" in a:
                names = a["fields"]
                fields = tuple((names[i] if i < len(names) else str(i), ops[i]) for i in range(len(ops)))
                return ("agg", a["adt"], a["variant"], fields), None
            if "tuple" in a:
                return ("tup", ops), None
            if "array" in a:
                return ("arr", ops), None
            if "closure" in a:
                return ("clo", a["closure"], ops), None
            if "coroutine" in a:
                return ("clo", a["coroutine"], ops), None
            if "coroutine_closure" in a:
                return ("clo", a["coroutine_closure"], ops), None
            return ("agg?", ops), None
        if "repeat" in rv:
            return ("repeat", self.operand(st, rv["repeat"]), rv.get("n")), None
        if "tls" in rv:
            return ("tls", rv["tls"]), None
        return ("other", str(rv.get("other"))), None

    def place_ty(self, pl):
        ps = pl.get("p")
        if not ps:
            return self.body.local_ty(pl["l"])
        # type of the last field projection if any (driver records it); else unknown
        last = ps[-1]
        if last[0] == "f" and len(last) > 3:
            return last[3]
        if last[0] == "d" and len(ps) == 1:
            t = self.body.local_ty(pl["l"])
            return t.lstrip("&").replace("mut ", "", 1) if t.startswith("&") else t
        if last[0] == "d" and len(ps) >= 2 and ps[-2][0] == "f" and len(ps[-2]) > 3:
            t = ps[-2][3]
            return t.lstrip("&").replace("mut ", "", 1) if t.startswith("&") else t
        return None

    def exec_stmt(self, st, s):
        if s["k"] == "assign":
            val, extra = self.rvalue(st, s["rv"], s["lhs"])
            rv = s["rv"]
            if "agg" in rv and "adt" in rv["agg"]:
                st.effects.append(("agg", rv["agg"]["adt"], rv["agg"]["variant"], val[3], s.get("line")))
            self.write_place(st, s["lhs"], val, s.get("line"))
            if extra and "p" not in s["lhs"]:
                st.ptr[s["lhs"]["l"]] = extra[1]
                st.ptrmut[s["lhs"]["l"]] = extra[2]
        elif s["k"] == "setdiscr":
            st.effects.append(("setdiscr", self.read_place(st, s["lhs"]), s["variant"]))

    # ---- enumeration --------------------------------------------------------
    def run(self, start=0):
        self.paths_out = []
        st = State()
        self._walk(st, start)
        return self.paths_out

    def _emit(self, st, end, ret=None):
        self.paths_out.append(Path(st, end, ret))
        if len(self.paths_out) > self.max_paths:
            raise PathExplosion("%s: more than %d paths" % (self.body.name, self.max_paths))

    def _walk(self, st, b):
        # iterative DFS with explicit stack of (state, block)
        stack = [(st, b, None)]
        loops = self.loops()
        while stack:
            st, b, frm = stack.pop()
            if self.stop_at is not None and b in self.stop_at:
                st.blocks.append(b)
                self._emit(st, "stop", None)
                continue
            # loop budget
            if frm is not None and (frm, b) in self.cfg.back_edges():
                ent = loops.get(b)
                budget = 0 if (ent and ent[1]) else self.unroll
                n = st.backs.get(b, 0)
                if n >= budget:
                    if not (ent and ent[1]):
                        self._emit(st, "loopcut", None)
                    continue
                st.backs[b] = n + 1
            st.blocks.append(b)
            st.visits[b] = st.visits.get(b, 0) + 1
            blk = self.body.blocks[b]
            for s in blk["stmts"]:
                self.exec_stmt(st, s)
            t = blk["term"]
            k = t["k"]
            site = (b, st.visits[b])
            if k == "return":
                self._emit(st, "return", self.base_value(st, 0))
                continue
            if k in ("unreachable", "resume", "terminate", "coroutine_drop"):
                self._emit(st, "unreachable", None)
                continue
            nxt = []
            if k == "goto":
                nxt = [(t["t"], None)]
            elif k in ("false_edge", "false_unwind"):
                nxt = [(t["t"], None)]
            elif k == "drop":
                st.effects.append(("drop", self.read_place(st, t["place"]), t.get("line"), t["place"]["l"]))
                nxt = [(t["t"], None)]
            elif k == "assert":
                st.effects.append(("assert", t["msg"], self.operand(st, t["cond"]), t.get("line")))
                nxt = [(t["t"], None)]
            elif k == "yield":
                st.effects.append(("yield", t.get("line")))
                self.write_place(st, t["resume_arg"], ("resume", site), record=False)
                nxt = [(t["t"], None)]
            elif k == "call":
                self.exec_call(st, t, site)
                if t.get("t") is None:
                    self._emit(st, "diverge", None)
                    continue
                nxt = [(t["t"], None)]
            elif k == "tailcall":
                self._emit(st, "return", ("call", short_callee(t), tuple(self.operand(st, o) for o in t["ops"]), site))
                continue
            elif k == "switch":
                d = self.operand(st, t["op"])
                vals = [v for v, _ in t["targets"]]
                dc = strip_after(d)
                if dc[0] == "c" and dc[2] == "int" and isinstance(dc[3], int) and not isinstance(dc[3], bool):
                    # the discriminant is a constant on this path (e.g. a flag assigned `false` on the other arm of a short-circuit
                    # `&&`): only the matching edge exists; no branch atom is recorded
                    tgt = next((tb for v, tb in t["targets"] if v == dc[3]), t["otherwise"])
                    nxt.append((tgt, None))
                    vals = None
                for v, tb in (t["targets"] if vals is not None else []):
                    nxt.append((tb, {"block": b, "label": ("sw", v), "discr": d, "ty": t.get("ty"), "line": t.get("line")}))
                if vals is not None:
                    nxt.append((t["otherwise"], {"block": b, "label": ("not", tuple(vals)), "discr": d, "ty": t.get("ty"), "line": t.get("line")}))
            else:
                self._emit(st, "unreachable", None)
                continue
            # prune: cleanup targets, exhausted loops
            cand = []
            for tb, atom in nxt:
                if self.body.blocks[tb]["cleanup"]:
                    continue
                if self.follow is not None and not self.follow(tb):
                    continue
                skip = False
                for h, ent in loops.items():
                    budget = 0 if ent[1] else self.unroll
                    if st.backs.get(h, 0) >= budget and (st.visits.get(h, 0) > 0) and tb in ent[0] and tb != h:
                        if b in ent[0] and tb not in ent[3]:
                            skip = True
                            break
                if not skip:
                    cand.append((tb, atom))
            if not cand and nxt:
                self._emit(st, "loopcut", None)
                continue
            for i, (tb, atom) in enumerate(cand):
                s2 = st if i == len(cand) - 1 else st.fork()
                if atom is not None:
                    atom = dict(atom, neff=len(s2.effects))
                    s2.atoms.append(atom)
                stack.append((s2, tb, b))

    def exec_call(self, st, t, site):
        name = short_callee(t)
        decl = decl_callee(t)
        args = tuple(self.operand(st, o) for o in t["ops"])
        if decl in self.transparent or name in self.transparent or _TRANSPARENT_RX.search(decl):
            val = args[0] if args else ("c", "()", "zst", None)
            # keep pointer tracking through transparent calls
            o = t["ops"][0] if t["ops"] else None
            pl = (o.get("cp") or o.get("mv")) if o else None
            self.write_place(st, t["dest"], val, t.get("line"))
            if pl is not None and "p" not in pl and pl["l"] in st.ptr and "p" not in t["dest"]:
                st.ptr[t["dest"]["l"]] = st.ptr[pl["l"]]
                st.ptrmut[t["dest"]["l"]] = st.ptrmut.get(pl["l"], False)
            return
        if decl.endswith("ops::Try::branch"):
            val = ("try", args[0])
        elif decl.endswith("Future::poll") and len(args) == 2:
            val = ("poll", args[0], site)
        else:
            val = ("call", name, args, site)
        if not decl.endswith("ops::Try::branch") and not (decl.endswith("Future::poll") and len(args) == 2) \
                and not decl.endswith("future::get_context"):
            st.effects.append(("call", name, args, site, t.get("line"), decl, tuple(t["f"].get("args", ())), t))
        # havoc pointees of &mut arguments
        for o in t["ops"]:
            pl = o.get("cp") or o.get("mv")
            if pl is not None and "p" not in pl and pl["l"] in st.ptr and st.ptrmut.get(pl["l"]):
                root, cproj = st.ptr[pl["l"]]
                old = self.read_canon(st, root, cproj)
                while isinstance(old, tuple) and old[0] == "after":
                    old = old[3]
                if root in st.proots:
                    for key in [k for k in st.mem if k[0] == root and len(k[1]) > len(cproj) and k[1][:len(cproj)] == cproj]:
                        del st.mem[key]
                st.mem[(root, cproj)] = ("after", name, site, old)
                if cproj:
                    st.proots.add(root)
        self.write_place(st, t["dest"], val, t.get("line"))


def rp_raw(cproj):
    """canonical projection tuple -> raw-like list understood by canon()"""
    out = []
    for e in cproj:
        if e[0] == "f":
            out.append(("cf", e[1]))
        elif e[0] == "dc":
            out.append(("cdc", e[1]))
        else:
            out.append(e)
    return out


def const_expr(c):
    ty = c.get("ty")
    if "fn" in c:
        return ("c", ty, "fn", strip_generics(c.get("res") or c["fn"]))
    if "promoted" in c:
        return ("c", ty, "promoted", c["promoted"])
    if "variant" in c:
        return ("c", ty, "variant", c["variant"])
    if "int" in c:
        return ("c", ty, "int", c["int"])
    if "int_s" in c:
        return ("c", ty, "int", int(c["int_s"]))
    if "str" in c:
        return ("c", ty, "str", c["str"])
    if "bytes" in c:
        return ("c", ty, "bytes", c["bytes"])
    if c.get("zst"):
        return ("c", ty, "zst", c.get("def"))
    return ("c", ty, "opaque", c.get("def") or c.get("opaque"))


def project(ev, base, cproj):
    e = base
    i = 0
    cproj = list(cproj)
    while i < len(cproj):
        p = cproj[i]
        if p[0] == "f":
            e = field_of(e, p[1])
        elif p[0] == "dc":
            # downcast followed by field -> ('vf', base, variant, field)
            if i + 1 < len(cproj) and cproj[i + 1][0] == "f":
                e = vfield_of(e, p[1], cproj[i + 1][1])
                i += 1
            else:
                e = ("dc", e, p[1])
        elif p[0] == "i":
            e = ("idx", e, p[2] if len(p) > 2 else ("local", p[1]))
        elif p[0] == "ci":
            e = ("idx", e, ("const", p[1], p[2]))
        elif p[0] == "sub":
            e = ("sub", e, p[1], p[2], p[3])
        i += 1
    return e


def field_of(e, name):
    k = e[0]
    if k == "agg":
        for fname, fv in e[3]:
            if fname == name:
                return fv
    if k == "tup" or k == "arr":
        try:
            return e[1][int(name)]
        except (ValueError, IndexError):
            pass
    if k == "clo":
        try:
            return e[2][int(name)]
        except (ValueError, IndexError):
            pass
    if k == "chk":
        if str(name) == "0":
            return ("bin", e[1], e[2], e[3], e[4])
        return ("ovf", e[1], e[2], e[3])
    if k == "after":
        return ("f", e, name)
    return ("f", e, name)


def vfield_of(e, variant, name):
    if e[0] == "agg" and e[2] == variant:
        for fname, fv in e[3]:
            if fname == name:
                return fv
    if e[0] == "try" and variant == "Continue":
        return ("unwrap", e[1])
    if e[0] == "try" and variant == "Break":
        return ("residual", e[1])
    if e[0] == "poll" and variant == "Ready":
        return ("await", e[1])
    return ("vf", e, variant, name)


# ---- rendering ------------------------------------------------------------------

def show(e, depth=0):
    if not isinstance(e, tuple):
        return repr(e)
    if depth > 12:
        return "…"
    k = e[0]
    d = depth + 1
    if k == "c":
        if e[2] == "int":
            return "%s:%s" % (e[3], e[1])
        if e[2] == "str":
            return repr(e[3])
        if e[2] == "bytes":
            try:
                return "b" + repr(bytes.fromhex(e[3]))[1:]
            except ValueError:
                return "bytes"
        if e[2] == "variant":
            return "%s::%s" % (ty_head(e[1]).split("::")[-1], e[3])
        if e[2] == "fn":
            return "fn(%s)" % e[3]
        if e[2] == "promoted":
            return "promoted#%s" % e[3]
        if e[2] == "zst":
            return "%s" % (e[3] or ty_head(e[1] or "()"))
        return "const(%s)" % (e[3],)
    if k == "p":
        return e[2]
    if k == "up":
        return "^" + e[1]
    if k == "u":
        return "_%d" % e[1]
    if k == "call":
        return "%s(%s)" % (tail2(e[1]), ", ".join(show(a, d) for a in e[2]))
    if k == "f":
        return "%s.%s" % (show(e[1], d), e[2])
    if k == "vf":
        return "(%s as %s).%s" % (show(e[1], d), e[2], e[3])
    if k == "dc":
        return "(%s as %s)" % (show(e[1], d), e[2])
    if k == "bin":
        return "%s(%s, %s)" % (e[1], show(e[2], d), show(e[3], d))
    if k == "chk":
        return "%s?(%s, %s)" % (e[1], show(e[2], d), show(e[3], d))
    if k == "ovf":
        return "overflow(%s, %s, %s)" % (e[1], show(e[2], d), show(e[3], d))
    if k == "un":
        return "%s(%s)" % (e[1], show(e[2], d))
    if k == "cast":
        return "(%s as %s)" % (show(e[3], d), e[2])
    if k == "discr":
        return "discr(%s)" % show(e[1], d)
    if k == "len":
        return "len(%s)" % show(e[1], d)
    if k == "agg":
        return "%s::%s{%s}" % (e[1].split("::")[-1], e[2], ", ".join("%s: %s" % (n, show(v, d)) for n, v in e[3]))
    if k == "tup":
        return "(%s)" % ", ".join(show(a, d) for a in e[1])
    if k == "arr":
        return "[%s]" % ", ".join(show(a, d) for a in e[1])
    if k == "clo":
        return "closure<%s>(%s)" % (e[1].split("::", 1)[-1], ", ".join(show(a, d) for a in e[2]))
    if k == "after":
        return "%s'" % show(e[3], d)
    if k == "try":
        return "try(%s)" % show(e[1], d)
    if k == "unwrap":
        return "%s?" % show(e[1], d)
    if k == "residual":
        return "residual(%s)" % show(e[1], d)
    if k == "poll":
        return "poll(%s)" % show(e[1], d)
    if k == "await":
        return "%s.await" % show(e[1], d)
    if k == "idx":
        ix = e[2]
        if isinstance(ix, tuple) and ix and ix[0] in ("local", "const"):
            return "%s[%s]" % (show(e[1], d), ix[1])
        if isinstance(ix, tuple) and ix and ix[0] == "c" and ix[2] == "int":
            return "%s[%s]" % (show(e[1], d), ix[3])
        return "%s[%s]" % (show(e[1], d), show(ix, d) if isinstance(ix, tuple) else ix)
    if k == "sub":
        return "%s[%s..%s%s]" % (show(e[1], d), e[2], "-" if e[4] else "", e[3])
    if k == "resume":
        return "resume"
    if k == "repeat":
        return "[%s; %s]" % (show(e[1], d), e[2])
    if k == "tls":
        return "tls(%s)" % e[1]
    return str(e)


_MODPATH = re.compile(r"\b(?:[a-z_][a-z0-9_]*::)+")


def tail2(name):
    """Drop module paths: `<a::b::T as c::Tr>::m` -> `<T as Tr>::m`."""
    return _MODPATH.sub("", name)


def strip_after(e):
    """Remove ('after', ..) wrappers (value-may-have-been-mutated markers)."""
    if not (isinstance(e, tuple) and e and isinstance(e[0], str)):
        return e
    k = e[0]
    if k == "after":
        return strip_after(e[3])
    if k == "call":
        return (k, e[1], tuple(strip_after(a) for a in e[2])) + tuple(e[3:])
    if k == "f":
        return field_of(strip_after(e[1]), e[2])
    if k == "vf":
        return vfield_of(strip_after(e[1]), e[2], e[3])
    if k in ("dc", "discr", "len", "try", "unwrap", "residual", "poll", "await", "sub", "idx", "repeat"):
        return (k, strip_after(e[1])) + tuple(e[2:])
    if k in ("bin", "chk", "ovf"):
        return (k, e[1], strip_after(e[2]), strip_after(e[3])) + tuple(e[4:])
    if k == "un":
        return (k, e[1], strip_after(e[2]))
    if k == "cast":
        return (k, e[1], e[2], strip_after(e[3])) + tuple(e[4:])
    if k == "agg":
        return (k, e[1], e[2], tuple((n, strip_after(v)) for n, v in e[3]))
    if k in ("tup", "arr", "agg?"):
        return (k, tuple(strip_after(a) for a in e[1]))
    if k == "clo":
        return (k, e[1], tuple(strip_after(a) for a in e[2]))
    return e


KINDS = {"c", "p", "up", "u", "call", "f", "vf", "dc", "bin", "chk", "ovf", "un", "cast", "discr", "len", "agg", "tup",
         "arr", "clo", "after", "try", "unwrap", "residual", "poll", "await", "idx", "sub", "resume", "repeat", "tls",
         "other", "agg?"}


def children(e):
    k = e[0]
    if k in ("c", "p", "up", "u", "resume", "tls", "other"):
        return ()
    if k == "call":
        return e[2]
    if k in ("f", "vf", "dc", "discr", "len", "try", "unwrap", "residual", "poll", "await", "sub", "idx", "repeat"):
        return (e[1],)
    if k in ("bin", "chk", "ovf"):
        return (e[2], e[3])
    if k == "un":
        return (e[2],)
    if k == "cast":
        return (e[3],)
    if k == "agg":
        return tuple(v for _, v in e[3])
    if k in ("tup", "arr", "agg?"):
        return e[1]
    if k == "clo":
        return e[2]
    if k == "after":
        return (e[3],)
    return ()


def subst(e, target, repl):
    """Replace every occurrence of sub-expression `target` (structural equality) by `repl`."""
    if e == target:
        return repl
    if not (isinstance(e, tuple) and e and isinstance(e[0], str)):
        return e
    k = e[0]
    f = lambda x: subst(x, target, repl)
    if k == "call":
        return (k, e[1], tuple(f(a) for a in e[2])) + tuple(e[3:])
    if k in ("f", "vf", "dc", "discr", "len", "try", "unwrap", "residual", "poll", "await", "sub", "idx", "repeat"):
        return (k, f(e[1])) + tuple(e[2:])
    if k in ("bin", "chk", "ovf"):
        return (k, e[1], f(e[2]), f(e[3])) + tuple(e[4:])
    if k == "un":
        return (k, e[1], f(e[2]))
    if k == "cast":
        return (k, e[1], e[2], f(e[3])) + tuple(e[4:])
    if k == "agg":
        return (k, e[1], e[2], tuple((n, f(v)) for n, v in e[3]))
    if k in ("tup", "arr", "agg?"):
        return (k, tuple(f(a) for a in e[1]))
    if k == "clo":
        return (k, e[1], tuple(f(a) for a in e[2]))
    if k == "after":
        return (k, e[1], e[2], f(e[3]))
    return e


def walk(e):
    """All sub-expressions (pre-order)."""
    stack = [e]
    while stack:
        x = stack.pop()
        if not (isinstance(x, tuple) and x and isinstance(x[0], str) and x[0] in KINDS):
            continue
        yield x
        ch = children(x)
        for c in reversed(ch):
            stack.append(c)


def contains(e, pred):
    return any(pred(x) for x in walk(e))


def atom_text(facts, a):
    """Human-readable form of a branch atom."""
    d = a["discr"]
    lab = a["label"]
    if isinstance(d, tuple) and d[0] == "discr":
        ty = d[2]
        if lab[0] == "sw":
            vn = facts.variant_name(ty, lab[1]) if ty else None
            return "%s is %s" % (show(d[1]), vn if vn else lab[1])
        names = [(facts.variant_name(ty, v) if ty else None) or str(v) for v in lab[1]]
        return "%s is not %s" % (show(d[1]), "|".join(names))
    if a.get("ty") == "bool":
        if lab[0] == "sw":
            return ("!" if lab[1] == 0 else "") + show(d)
        return ("!" if lab[1] == (1,) else "") + show(d) if lab[1] != (0,) else show(d)
    if lab[0] == "sw":
        return "%s == %s" % (show(d), lab[1])
    return "%s not in %s" % (show(d), list(lab[1]))


def atom_bool(a):
    """For a bool switch atom return (expr, truth) else None."""
    if a.get("ty") != "bool":
        return None
    lab = a["label"]
    if lab[0] == "sw":
        return a["discr"], bool(lab[1])
    if lab[1] == (0,):
        return a["discr"], True
    if lab[1] == (1,):
        return a["discr"], False
    return None


def atom_variant(facts, a):
    """For a switch on an enum discriminant return (scrutinee expr, [variant names], positive?)."""
    d = a["discr"]
    if not (isinstance(d, tuple) and d[0] == "discr"):
        return None
    ty = d[2]
    lab = a["label"]
    if lab[0] == "sw":
        return d[1], [facts.variant_name(ty, lab[1]) or str(lab[1])], True
    return d[1], [facts.variant_name(ty, v) or str(v) for v in lab[1]], False
