#!/usr/bin/env python3
"""CLI: python3 /verif/aqv/check.py --property Cxx [--tier quick|thorough] [--replay path]

exit 0  every obligation of the property holds on /repo's working tree (listed known findings are
        printed as KNOWN-FINDING lines)
exit 1  at least one unlisted violation; one `VIOLATION property=<id> replay=<path>` line each
exit 2  infrastructure error (facts could not be generated) - never a silent pass
"""
import argparse
import importlib
import json
import os
import sys
import time

HERE = os.path.dirname(os.path.abspath(__file__))
sys.path.insert(0, HERE)
import build_facts  # noqa: E402
from aq import core, facts as factsmod  # noqa: E402

TIER_CFGSETS = {"quick": ["default+uring"], "thorough": ["default+uring", "nometrics+uring"]}


def main():
    ap = argparse.ArgumentParser()
    ap.add_argument("--property", required=True)
    ap.add_argument("--tier", default=os.environ.get("VERIF_TIER", "quick"), choices=["quick", "thorough"])
    ap.add_argument("--replay")
    ap.add_argument("--list", action="store_true", help="print every obligation")
    a = ap.parse_args()
    seed = int(os.environ.get("VERIF_SEED", "0") or 0)
    t0 = time.time()
    try:
        mod = importlib.import_module("rules." + a.property)
    except ImportError as e:
        print("no rules for", a.property, e, file=sys.stderr)
        return 2
    prop = mod.PROP
    obs = []
    cfgsets = TIER_CFGSETS[a.tier]
    try:
        for cs in cfgsets:
            d = build_facts.facts_dir(cs, log=lambda m: print(m, file=sys.stderr))
            fx = factsmod.Facts(d)
            fx.tier = a.tier
            obs.extend(core.evaluate(prop, fx, cs, a.tier))
    except build_facts.FactsError as e:
        print("INFRASTRUCTURE-ERROR: %s" % e)
        # a tree that no longer builds cannot be said to satisfy anything
        return 2
    if a.list:
        for o in obs:
            print("%s %-60s %s  %s" % ("ok  " if o.ok else "FAIL", o.key, o.where, o.detail[:160]))
    if a.replay:
        with open(a.replay) as f:
            want = json.load(f)["obligation"]["key"]
        hit = [o for o in obs if o.key == want]
        if not hit:
            print("replay: obligation %s no longer exists on this tree" % want)
        for o in hit:
            print("replay: %s -> %s\n  at %s\n  %s" % (o.key, "holds" if o.ok else "VIOLATED", o.where, o.detail))
    cmd = "python3 /verif/aqv/check.py --property %s --tier %s" % (a.property, a.tier)
    return core.report(prop, obs, a.tier, seed, time.time() - t0, cfgsets, cmd)


if __name__ == "__main__":
    sys.exit(main())
