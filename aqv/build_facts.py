#!/usr/bin/env python3
"""Regenerate MIR fact files from /repo's current working tree (E1 runner).

Facts are cached by a hash of the working tree's sources, so a changed tree always
re-runs the driver.  Fails closed (exit 2 via FactsError) when the driver did not
produce every expected crate file.
"""
import fcntl
import hashlib
import os
import shutil
import subprocess
import sys
import time

VERIF = os.path.dirname(os.path.dirname(os.path.abspath(__file__)))
REPO = os.environ.get("AQV_REPO", "/repo")
CACHE = os.path.join(VERIF, ".cache")
DRIVER_DIR = os.path.join(VERIF, "aqfacts")
DRIVER = os.path.join(DRIVER_DIR, "target", "release", "aqfacts")

EXPECTED = [
    "aquatic.bin", "aquatic_bencher.bin", "aquatic_common.lib", "aquatic_http.bin",
    "aquatic_http.lib", "aquatic_http_load_test.bin", "aquatic_http_protocol.lib",
    "aquatic_peer_id.lib", "aquatic_toml_config.lib", "aquatic_toml_config_derive.lib",
    "aquatic_udp.bin", "aquatic_udp.lib", "aquatic_udp_load_test.bin",
    "aquatic_udp_load_test.lib", "aquatic_udp_protocol.lib", "aquatic_ws.bin",
    "aquatic_ws.lib", "aquatic_ws_load_test.bin", "aquatic_ws_protocol.lib",
]

CFGSETS = {
    # name -> cargo feature arguments
    "default+uring": ["--features", "aquatic_udp/io-uring"],
    "nometrics+uring": ["--no-default-features", "--features", "aquatic_udp/io-uring"],
}


class FactsError(Exception):
    pass


def sysroot():
    return subprocess.check_output(["rustc", "+nightly", "--print", "sysroot"], text=True).strip()


def tree_hash():
    try:
        out = subprocess.check_output(
            ["git", "-C", REPO, "ls-files", "-co", "--exclude-standard"], text=True, stderr=subprocess.DEVNULL)
    except (subprocess.CalledProcessError, OSError):
        # /repo without git metadata: walk the tree (build output excluded)
        rels = []
        for root, dirs, files in os.walk(REPO):
            dirs[:] = [d for d in dirs if d not in ("target", ".git")]
            rels += [os.path.relpath(os.path.join(root, f), REPO) for f in files]
        out = "\n".join(rels)
    h = hashlib.sha256()
    n = 0
    for rel in sorted(out.splitlines()):
        if not (rel.endswith(".rs") or rel.endswith("Cargo.toml") or rel.endswith("Cargo.lock")
                or rel.endswith(".html") or rel.endswith(".css")):
            continue
        p = os.path.join(REPO, rel)
        if not os.path.isfile(p):
            continue
        h.update(rel.encode())
        h.update(b"\0")
        with open(p, "rb") as f:
            h.update(f.read())
        h.update(b"\0")
        n += 1
    # the driver itself is part of the key
    for rel in ("src/main.rs", "src/json.rs"):
        with open(os.path.join(DRIVER_DIR, rel), "rb") as f:
            h.update(f.read())
    return h.hexdigest()[:24], n


def build_driver():
    src_m = max(os.path.getmtime(os.path.join(DRIVER_DIR, "src", f)) for f in ("main.rs", "json.rs"))
    if os.path.exists(DRIVER) and os.path.getmtime(DRIVER) >= src_m:
        return
    env = dict(os.environ, CARGO_NET_OFFLINE="true")
    r = subprocess.run(["cargo", "build", "--offline", "--release"], cwd=DRIVER_DIR, env=env,
                       stdout=subprocess.PIPE, stderr=subprocess.STDOUT, text=True)
    if r.returncode != 0 or not os.path.exists(DRIVER):
        raise FactsError("driver build failed:\n" + r.stdout[-4000:])


def facts_dir(cfgset="default+uring", log=None):
    """Return a directory holding fresh fact files for /repo's working tree."""
    if cfgset not in CFGSETS:
        raise FactsError("unknown cfgset " + cfgset)
    os.makedirs(CACHE, exist_ok=True)
    # one lock per analysed tree: the registered checks all analyse /repo and serialise on "lock"; the self-test may
    # analyse scratch copies in parallel (AQV_REPO), each with its own lock and cargo target directory
    suffix = "" if REPO == "/repo" else "-" + hashlib.sha256(REPO.encode()).hexdigest()[:8]
    dl = open(os.path.join(CACHE, "lock-driver"), "w")
    fcntl.flock(dl, fcntl.LOCK_EX)
    try:
        build_driver()
    finally:
        fcntl.flock(dl, fcntl.LOCK_UN)
        dl.close()
    lock = open(os.path.join(CACHE, "lock" + suffix), "w")
    fcntl.flock(lock, fcntl.LOCK_EX)
    try:
        h, nfiles = tree_hash()
        out = os.path.join(CACHE, "facts", h, cfgset)
        stamp = os.path.join(out, "COMPLETE")
        if os.path.exists(stamp) and all(os.path.exists(os.path.join(out, e + ".json")) for e in EXPECTED):
            try:
                os.utime(os.path.dirname(out))  # LRU: a hit keeps the set (prune() sorts by mtime)
            except OSError:
                pass
            return out
        if os.path.isdir(out):
            shutil.rmtree(out)
        os.makedirs(out)
        target = os.path.join(CACHE, "target", cfgset + suffix)
        os.makedirs(target, exist_ok=True)
        # cargo's freshness cache would skip the wrapper: forget the members
        fp = os.path.join(target, "debug", ".fingerprint")
        if os.path.isdir(fp):
            for d in os.listdir(fp):
                if d.startswith("aquatic"):
                    shutil.rmtree(os.path.join(fp, d), ignore_errors=True)
        env = dict(os.environ)
        env.update({
            "LD_LIBRARY_PATH": os.path.join(sysroot(), "lib"),
            "AQFACTS_OUT": out,
            "RUSTFLAGS": "-Zmir-opt-level=0 -Awarnings",
            "RUSTC_WORKSPACE_WRAPPER": DRIVER,
            "CARGO_TARGET_DIR": target,
            "CARGO_NET_OFFLINE": "true",
        })
        env.pop("RUSTC_WRAPPER", None)
        t0 = time.time()
        cmd = ["cargo", "+nightly", "check", "--offline", "--workspace"] + CFGSETS[cfgset]
        r = subprocess.run(cmd, cwd=REPO, env=env, stdout=subprocess.PIPE, stderr=subprocess.STDOUT, text=True)
        if log:
            log("driver run %s: %.1fs rc=%d (%d source files hashed)" % (cfgset, time.time() - t0, r.returncode, nfiles))
        if r.returncode != 0:
            shutil.rmtree(out, ignore_errors=True)
            raise FactsError("cargo check failed on /repo's working tree (%s):\n%s" % (cfgset, r.stdout[-6000:]))
        missing = [e for e in EXPECTED if not os.path.exists(os.path.join(out, e + ".json"))]
        if missing:
            shutil.rmtree(out, ignore_errors=True)
            raise FactsError("driver produced no facts for: " + ", ".join(missing))
        stale = [e for e in EXPECTED if os.path.getmtime(os.path.join(out, e + ".json")) < t0 - 1]
        if stale:
            raise FactsError("stale fact files: " + ", ".join(stale))
        open(stamp, "w").write(str(time.time()))
        prune(os.path.join(CACHE, "facts"), keep=h)
        return out
    finally:
        fcntl.flock(lock, fcntl.LOCK_UN)
        lock.close()


def prune(root, keep, maxn=30):
    """Bound the disk used by cached fact sets."""
    try:
        ds = [d for d in os.listdir(root) if d != keep and os.path.isdir(os.path.join(root, d))]
        ds.sort(key=lambda d: os.path.getmtime(os.path.join(root, d)))
        for d in ds[:-maxn] if len(ds) > maxn else []:
            shutil.rmtree(os.path.join(root, d), ignore_errors=True)
    except OSError:
        pass


if __name__ == "__main__":
    sets = sys.argv[1:] or ["default+uring"]
    try:
        for s in sets:
            print(facts_dir(s, log=lambda m: print(m, file=sys.stderr)))
    except FactsError as e:
        print("FACTS-ERROR:", e, file=sys.stderr)
        sys.exit(2)
