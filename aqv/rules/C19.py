"""C19 - a dead worker brings the whole tracker down."""
import re

from aq import sym
from aq.core import Property
from aq.sym import show, strip_after
from aq.util import (call_args, calls_in, const_int, cpaths, fp, has_call, in_test_code, ob, paths, unwrap_origin, who_calls, closure_env)

PROP = Property(
    "C19", "other",
    "Necessary conditions decided over every path of the three run() functions: each spawned thread's JoinHandle "
    "is pushed onto the vector the watchdog loop iterates; in the watchdog every finished handle leads to "
    "`return Err` whatever join() yields; run() has no Ok return at all; the poll sleep is a constant below ten "
    "seconds; nothing in the tracker crates catches panics; worker closures return the worker's own Result; "
    "periodic timer closures never return None (which would silently stop cleaning).",
    ["aqfacts MIR extraction", "std::thread JoinHandle::is_finished/join semantics", "glommio propagates a task panic to LocalExecutor::run (dependency behaviour)"],
    ["real latency and glommio's panic propagation are not decided"],
)
TRACKERS = ("aquatic_udp", "aquatic_http", "aquatic_ws")
SPAWN = r"thread::Builder::spawn$|std::thread::spawn$|aquatic_common::spawn_prometheus_endpoint$"


def origin_site(e):
    """call site an expression originates from through ?/context/with_context wrappers"""
    e = strip_after(e)
    for _ in range(8):
        e = unwrap_origin(e, [r"Context.*::(with_)?context$", r"Result.*::map_err$", r"Result.*::expect$", r"Result.*::unwrap$"])
        if e[0] == "call":
            return e
        break
    return e


@PROP.rule("R-C19-1", floor=6, doc="every spawned thread is watched: its JoinHandle reaches join_handles")
def watched(fx):
    for crate in TRACKERS:
        run = fx.fn(crate + "::run")
        ps = cpaths(fx, run)
        spawn_sites = {}
        lost = {}
        for p in ps:
            pushes = [e for e in p.effects if e[0] == "call" and re.search(r"Vec.*::push$", e[1]) and fp(strip_after(e[2][0])).startswith("Vec::new()")]
            pushed_sites = set()
            for e in pushes:
                v = strip_after(e[2][1])
                if v[0] == "tup" and len(v[1]) == 2:
                    o = origin_site(v[1][1])
                    if o[0] == "call" and re.search(SPAWN, o[1]):
                        pushed_sites.add(o[3][0])
            for i, e in enumerate(p.effects):
                if e[0] == "call" and re.search(SPAWN, e[1]):
                    spawn_sites[e[3][0]] = e[4]
                    # spawn failed and `?` returned: fine. Otherwise the handle must be pushed on this path
                    failed = p.end == "return" and has_call(strip_after(p.ret), r"from_residual$") and any(
                        x[0] == "call" and x[3] == e[3] for x in sym.walk(strip_after(p.ret)))
                    reached_watchdog = any(x[0] == "call" and x[1].endswith("JoinHandle::is_finished") for x in p.effects[i:])
                    if not failed and e[3][0] not in pushed_sites and (reached_watchdog or p.end in ("return", "loopcut")):
                        if not failed:
                            lost.setdefault(e[3][0], e[4])
        n = len(spawn_sites)
        floors = {"aquatic_udp": 4, "aquatic_http": 3, "aquatic_ws": 3}
        yield ob("R-C19-1", "watched#%s" % crate, n >= floors[crate] and not lost, run, None,
                 "%d spawn sites (lines %s); handles that can reach the watchdog without being pushed: lines %s" % (n, sorted(spawn_sites.values()), sorted(lost.values())),
                 {"spawn_sites": n, "lines": sorted(spawn_sites.values())})
    # closed world: nobody else spawns threads in the tracker crates
    who = sorted(set(b.short for b, i, t in who_calls(fx, r"thread::Builder::spawn$|std::thread::spawn$|thread::scope$|Builder::spawn_scoped$",
                                                      crates=list(TRACKERS) + ["aquatic_common"]) if not in_test_code(b)))
    allowed = {"aquatic_udp::run", "aquatic_http::run", "aquatic_ws::run", "aquatic_common::spawn_prometheus_endpoint"}
    yield ob("R-C19-1", "watched#who_spawns", set(who) <= allowed and len(who) >= 3, None, None, "thread spawners: %s" % who, {"who": who})
    callers = sorted(set(b.short for b, i, t in who_calls(fx, r"aquatic_common::spawn_prometheus_endpoint$") if not in_test_code(b)))
    yield ob("R-C19-1", "watched#prometheus_callers", set(callers) <= {"aquatic_udp::run", "aquatic_http::run", "aquatic_ws::run"}, None, None,
             "spawn_prometheus_endpoint callers: %s" % callers, trivial=True)
    # worker closures hand the worker's Result to the thread (the error is what join() later reports)
    for crate in TRACKERS:
        run = fx.fn(crate + "::run")
        bad = []
        n = 0
        for line, callee, args in call_args(fx, run, r"thread::Builder::spawn$"):
            clo = [a for a in args if a[0] == "clo"]
            if not clo:
                continue
            cb = fx.bodies.get(clo[0][1])
            if cb is None:
                continue
            n += 1
            WORKER = r"run_socket_worker$|run_swarm_worker$|run_statistics_worker$|LocalExecutor::run$|SocketWorker::run$|mio::run$"
            for p in cpaths(fx, cb):
                wc = p.calls(WORKER)
                if p.end == "loopcut" and wc:
                    bad.append(cb.short + " (keeps running after the worker returned)")
                if p.end != "return":
                    continue
                r = strip_after(p.ret)
                # Ok(()) after an endless signal loop, the worker call's own result, or a `?`-propagated error
                okr = (r[0] == "call") or (r[0] == "agg" and r[2] in ("Ok", "Err"))
                if wc and not (r[0] == "call" and any(r[3] == w[3] for w in wc)):
                    okr = False  # the worker's result is not what the thread returns
                if not okr:
                    bad.append(cb.short)
        yield ob("R-C19-1", "watched#%s#closure_results" % crate, n >= 2 and not bad, run, None,
                 "%d worker closures; closures not returning the worker's Result: %s" % (n, sorted(set(bad))), {"closures": n})


@PROP.rule("R-C19-2", floor=9, doc="watchdog: any finished worker -> run() returns Err; run() never returns Ok; sleep < 10 s")
def watchdog(fx):
    for crate in TRACKERS:
        run = fx.fn(crate + "::run")
        ps = cpaths(fx, run)
        rets = [p for p in ps if p.end == "return"]
        ok_rets = [p for p in rets if strip_after(p.ret)[0] == "agg" and strip_after(p.ret)[2] == "Ok"]
        yield ob("R-C19-2", "watchdog#%s#never_ok" % crate, len(rets) > 0 and not ok_rets, run, None,
                 "%d returning paths, %d of them return Ok" % (len(rets), len(ok_rets)), {"returns": len(rets)})
        fin = 0
        bad = 0
        arms = set()
        for p in ps:
            t = [sym.atom_bool(a) for a in p.atoms]
            t = [x for x in t if x and x[0][0] == "call" and x[0][1].endswith("JoinHandle::is_finished") and x[1]]
            if not t:
                continue
            fin += 1
            if p.end not in ("return", "loopcut"):
                continue  # unreachable match arms / panicking Vec::remove
            r = strip_after(p.ret) if p.end == "return" else None
            if not (r is not None and r[0] == "agg" and r[2] == "Err"):
                bad += 1
                continue
            j = [sym.atom_variant(fx, a) for a in p.atoms]
            j = [tuple(v[1]) if v[2] else ("!" + "|".join(v[1]),) for v in j if v and "JoinHandle::join" in show(v[0])]
            arms.add(tuple(j))
            if not p.calls(r"JoinHandle.*::join$"):
                bad += 1
        # CFG argument (no enumeration): from the true edge of every is_finished() test no loop back edge is reachable,
        # i.e. the only way on is a return (and run() never returns Ok)
        cfg = run.cfg
        backs = cfg.back_edges()
        back_src = set(x for x, h in backs)
        loops_on = []
        n_tests = 0
        for i, t in run.calls(r"JoinHandle.*::is_finished$"):
            sw = t["t"]
            st = run.blocks[sw]["term"]
            if st["k"] != "switch":
                loops_on.append("is_finished() result not branched on @%s" % t["line"])
                continue
            n_tests += 1
            true_t = st["otherwise"]
            r = cfg.reach_from(true_t, avoid_edges=backs)
            cont = sorted(run.blocks[x]["term"].get("line") for x in (r & back_src) if any((x, h) in backs and h not in r or True for h in cfg.succ[x] if (x, h) in backs))
            if cont:
                loops_on.append("after a finished handle the loop can continue (back edge from line %s)" % cont[:3])
        yield ob("R-C19-2", "watchdog#%s#finished_means_err" % crate, fin > 0 and bad == 0 and len(arms) >= 3 and n_tests >= 1 and not loops_on, run, None,
                 "%d paths see a finished handle; %d of them do not end in `return Err` after join(); join outcome arms: %s; %s" % (fin, bad, sorted(arms), loops_on or "no way back into the loop"),
                 {"paths": fin, "arms": sorted(map(str, arms)), "loops_on": loops_on})
        # the handle examined is an element of join_handles and the loop sleeps a constant < 10 s
        sl = set()
        for line, callee, args in call_args(fx, run, r"thread::sleep$"):
            d = strip_after(args[0])
            if d[0] == "call" and d[1].endswith("Duration::from_secs"):
                sl.add(const_int(d[2][0]))
            else:
                sl.add(show(d)[:40])
        yield ob("R-C19-2", "watchdog#%s#poll_interval" % crate, len(sl) == 1 and all(isinstance(x, int) and 0 < x <= 9 for x in sl), run, None,
                 "watchdog sleeps %s seconds between polls" % sorted(map(str, sl)), {"sleep": sorted(map(str, sl))})


@PROP.rule("R-C19-3", floor=3, doc="nothing swallows a worker's death")
def swallow(fx):
    bad = sorted(set("%s @%s" % (b.short, t["line"]) for b, i, t in who_calls(fx, r"panic::catch_unwind$|panic::resume_unwind$|FutureExt.*::catch_unwind$", crates=list(TRACKERS) + ["aquatic_common"])))
    yield ob("R-C19-3", "swallow#catch_unwind", not bad, None, None, "catch_unwind / resume_unwind uses in tracker crates: %s" % bad, {"uses": bad})
    ctl = len(who_calls(fx, r"thread::Builder::spawn$", crates=list(TRACKERS)))
    yield ob("R-C19-3", "swallow#control", ctl >= 8, None, None, "positive control: the same query finds %d Builder::spawn calls" % ctl, trivial=True)
    # periodic timer closures must keep repeating: they return Some(duration) on every path
    n = 0
    none_ret = []
    for b in fx.bodies.values():
        if b.crate not in ("aquatic_http", "aquatic_ws") or in_test_code(b) or b.kind == "promoted":
            continue
        for i, t in b.calls(r"glommio::timer::TimerActionRepeat::repeat(_into)?$"):
            pass
    seen = set()
    for b in list(fx.bodies.values()):
        if b.crate not in ("aquatic_http", "aquatic_ws") or b.kind == "promoted" or in_test_code(b):
            continue
        if not any(True for _ in b.calls(r"TimerActionRepeat::repeat")):
            continue
        for line, callee, args in call_args(fx, b, r"TimerActionRepeat::repeat"):
            for a in args:
                if a[0] != "clo":
                    continue
                # the action closure builds a future (coroutine) - find the innermost coroutine bodies below it
                stack = [a[1]]
                while stack:
                    nm = stack.pop()
                    kids = [c for c in fx.bodies.values() if c.parent == nm and c.kind in ("closure", "coroutine")]
                    cb = fx.bodies.get(nm)
                    if cb is not None and cb.kind == "coroutine" and nm not in seen:
                        seen.add(nm)
                        n += 1
                        for p in cpaths(fx, cb):
                            if p.end == "return":
                                r = strip_after(p.ret)
                                if not (r[0] == "agg" and r[2] == "Some"):
                                    none_ret.append("%s -> %s" % (cb.short.split("::", 3)[-1], show(r)[:30]))
                    stack.extend(k.name for k in kids)
                    # an action closure may also return the future of a workspace `async fn`
                    if cb is not None and cb.kind == "closure":
                        for q in cpaths(fx, cb):
                            if q.end == "return":
                                rr = strip_after(q.ret)
                                if rr[0] == "call" and (rr[1] + "::{closure#0}") in fx.by_short:
                                    for cand in fx.by_short[rr[1] + "::{closure#0}"]:
                                        stack.append(cand.name)
    yield ob("R-C19-3", "swallow#timers_repeat", n >= 6 and not none_ret, None, None,
             "%d periodic timer futures; futures that can return something other than Some(duration): %s" % (n, sorted(set(none_ret))), {"timers": n})
