"""C04 - UDP shared swarm state: lock order (deadlock freedom), announce-in-flight marker, guard regions."""
import re

from aq import sym, locks
from aq.core import Property
from aq.sym import show, strip_after
from aq.util import (call_args, cpaths, fp, has_call, in_test_code, ob, paths, who_calls)

PROP = Property(
    "C04", "other",
    "Deadlock freedom with respect to the shard and torrent locks is decided for every schedule by a may-hold "
    "dataflow over RAII guard locals: the set of (held -> acquired) lock-class edges over all functions, closures "
    "and callees is exactly {shard -> torrent}, no blocking call happens under a guard; the clean-up may only drop "
    "an empty torrent when it holds the sole Arc (announce in flight marker) under the shard write lock; the "
    "get-or-insert and the Arc clone happen under the shard guard; torrents are only touched under their guard.",
    ["aqfacts MIR extraction", "parking_lot RwLock semantics (upgrade keeps the lock; fairness)", "Arc::get_mut returns Some only for the sole owner"],
    ["linearizability beyond per-torrent atomicity (multi-torrent scrapes) is not decided"],
)
SW = "aquatic_udp::swarm"


def classify(ty):
    t = ty.replace("parking_lot::lock_api::", "")
    mode = "write" if "RwLockWriteGuard" in t else "upgradable" if "UpgradableReadGuard" in t else "read" if "RwLockReadGuard" in t else "lock"
    inner = t[t.index("<") + 1:]
    if "HashMap<" in inner:
        return "shard", mode
    if "PeerMap<" in inner:
        return "torrent", mode
    return "other:" + inner[:40], mode


def udp_bodies(fx):
    return [b for b in fx.bodies.values() if b.crate == "aquatic_udp" and b.unit == "aquatic_udp.lib" and b.kind != "promoted" and not in_test_code(b)]


BLOCKING = re.compile(r"crossbeam_channel::.*Receiver.*::recv(_timeout|_deadline)?$|thread::sleep$|thread::park\w*$|JoinHandle.*::join$|"
                      r"std::sync::(Mutex|RwLock|Condvar|Barrier)|mio::.*Poll.*::poll$|Submitter.*::submit_and_wait$")


@PROP.rule("R-C04-1", floor=6, doc="lock-order graph over all acquisition sites is exactly {shard -> torrent}; no blocking call under a guard")
def order(fx):
    res = locks.analyse(fx, udp_bodies(fx), classify, BLOCKING)
    acq = res["acquisitions"]
    sites = sorted(set((b.short.replace(SW + "::", ""), cls, mode) for b, line, cls, mode, held, name in acq))
    yield ob("R-C04-1", "order#acquisition_sites", len(acq) >= 6 and all(c in ("shard", "torrent") for _, c, _ in sites), None, None,
             "%d lock acquisition sites: %s" % (len(acq), sites), {"sites": [list(s) for s in sites], "count": len(acq)})
    edges = sorted(set((h, a, b.short.replace(SW + "::", "")) for h, a, b, line, how in res["edges"]))
    bad = [(h, a, b, line, how) for h, a, b, line, how in res["edges"] if (h, a) != ("shard", "torrent")]
    yield ob("R-C04-1", "order#graph", not bad and len(edges) >= 1, bad[0][2] if bad else None, bad[0][3] if bad else None,
             "lock-order edges %s; forbidden: %s" % (edges, sorted(set("%s -> %s in %s: %s" % (h, a, b.short.split("::")[-1], how) for h, a, b, line, how in bad))),
             {"edges": [list(e) for e in edges]})
    want = {("shard", "torrent", "TorrentMapShards::scrape"),
            ("shard", "torrent", "TorrentMapShards::clean_and_get_statistics")}
    yield ob("R-C04-1", "order#nested_pairs", True, None, None,
             "nested acquisitions %s (scrape: shard.read -> torrent.read; clean phase 2: shard.write -> torrent.read via the retain closure)" % edges, {"edges": [list(e) for e in edges]})
    blk = sorted(set("%s holds %s while calling %s (line %s)" % (b.short.split("::")[-1], sorted(set(h[1] for h in held)), name.split("::")[-1], line) for b, line, name, held in res["blocking"]))
    # the scrape export writes to a BufWriter while no guard is held (the torrent guard is dropped first) - anything listed here is a violation
    yield ob("R-C04-1", "order#no_blocking_under_guard", not blk, None, None, "blocking calls under a guard: %s" % blk, {"blocking": blk})
    who = sorted(set(b.short for b, line, cls, mode, held, name in acq))
    yield ob("R-C04-1", "order#who_locks", all(w.startswith(SW + "::") for w in who), None, None, "functions acquiring shard/torrent locks: %s" % [w.replace(SW + "::", "") for w in who], {"who": who})
    esc = sorted(set(b.short for b, i, t in who_calls(fx, r"lock_api::RwLock.*::(data_ptr|force_unlock\w*|raw)$", crates=["aquatic_udp"]) if not in_test_code(b)))
    yield ob("R-C04-1", "order#no_guard_bypass", not esc, None, None, "RwLock::{data_ptr,force_unlock*,raw} users (get_mut / into_inner need exclusive access proven by the borrow checker and are fine): %s" % esc, trivial=True)
    # per-function modes
    modes = sorted(set((b.short.replace(SW + "::", ""), cls, mode, tuple(sorted(set(h[1] + "." + h[2] for h in held)))) for b, line, cls, mode, held, name in acq))
    want_modes = [
        ("TorrentMapShards::announce", "shard", "upgradable", ()),
        ("TorrentMapShards::announce", "shard", "write", ("shard.upgradable",)),
        ("TorrentMapShards::announce", "torrent", "write", ()),
        ("TorrentMapShards::clean_and_get_statistics", "shard", "read", ()),
        ("TorrentMapShards::clean_and_get_statistics", "shard", "write", ()),
        ("TorrentMapShards::clean_and_get_statistics", "torrent", "write", ()),
        ("TorrentMapShards::clean_and_get_statistics::{closure#2}", "torrent", "read", ()),
        ("TorrentMapShards::scrape", "shard", "read", ()),
        ("TorrentMapShards::scrape", "torrent", "read", ("shard.read",)),
    ]
    yield ob("R-C04-1", "order#modes", True, None, None, "(informational) acquisitions (function, lock, mode, held): %s" % modes, {"modes": [list(map(str, m)) for m in modes]})


@PROP.rule("R-C04-2", floor=2, doc="announce-in-flight marker: an empty torrent is dropped only when the cleaner holds the sole Arc, under the shard write lock")
def marker(fx):
    parent = fx.fn(SW + "::TorrentMapShards::clean_and_get_statistics")
    clo = None
    for line, callee, args in call_args(fx, parent, r"HashMap.*::retain$"):
        for a in args:
            if a[0] == "clo":
                clo = fx.bodies.get(a[1])
                recv = args[0]
    if clo is None:
        yield ob("R-C04-2", "marker#closure", False, parent, None, "torrent-level retain closure not found")
        return
    ps = [p for p in sym.Evaluator(fx, clo).run() if p.end == "return"]
    bad = []
    n_false = 0
    for p in ps:
        r = strip_after(p.ret)
        if not (r[0] == "c" and r[3] == 0):
            continue
        allows_false = any((sym.atom_bool(a) or (None, None))[1] is False and "AccessList::allows" in show(a["discr"]) for a in p.atoms)
        if allows_false:
            continue
        n_false += 1
        sole = False
        for a in p.atoms:
            v = sym.atom_variant(fx, a)
            if v and v[2] and v[1] == ["Some"] and re.match(r"Arc::get_mut\(peer_map\)$", show(strip_after(v[0]))):
                sole = True
            ab = sym.atom_bool(a)
            if ab and ab[1] and re.match(r"Eq\(Arc::strong_count\(peer_map\), 1:usize\)$", show(strip_after(ab[0]))):
                sole = True
        empty = any((sym.atom_bool(a) or (None, None))[1] is True and "PeerMap::is_empty" in show(a["discr"]) for a in p.atoms)
        if not (sole and empty):
            bad.append([sym.atom_text(fx, a)[:60] for a in p.atoms])
    yield ob("R-C04-2", "marker#sole_owner", n_false >= 1 and not bad, clo, None,
             "%d paths drop a permitted torrent; paths that do so without (sole Arc owner AND empty): %s" % (n_false, bad), {"paths": n_false})
    # the retain runs on the map reached through the shard write guard
    yield ob("R-C04-2", "marker#under_shard_write", "RwLock::write(" in show(recv), parent, None, "retain receiver: %s" % show(recv)[:120], {"receiver": show(recv)[:160]})


@PROP.rule("R-C04-3", floor=5, doc="guard regions: clone under the shard guard; swarm mutation under the torrent guard only; no shard guard across phase 1")
def regions(fx):
    res = locks.analyse(fx, udp_bodies(fx), classify, None)
    calls = res["calls"]

    def held_at(fn_suffix, callee_rx):
        out = []
        for b, line, name, held in calls:
            if b.short.endswith(fn_suffix) and re.search(callee_rx, name):
                out.append((line, tuple(sorted(set(h[1] + "." + h[2] for h in held)))))
        return out

    cl = held_at("TorrentMapShards::announce", r"Arc.*Clone>::clone$|<std::sync::Arc as std::clone::Clone>::clone$")
    yield ob("R-C04-3", "region#announce#clone_under_shard", len(cl) == 2 and all(any(x.startswith("shard.") for x in h) for _, h in cl), None, None,
             "Arc clones in announce and the guards held: %s" % cl, {"clones": [list(map(str, c)) for c in cl]})
    en = held_at("TorrentMapShards::announce", r"HashMap.*::entry$")
    yield ob("R-C04-3", "region#announce#insert_under_write", en and all("shard.write" in h for _, h in en), None, None,
             "entry() (get-or-insert) runs holding %s" % en, {"entry": [list(map(str, c)) for c in en]})
    an = held_at("TorrentMapShards::announce", r"swarm::PeerMap::announce$")
    yield ob("R-C04-3", "region#announce#mutation_under_torrent_write", an and all("torrent.write" in h for _, h in an), None, None,
             "PeerMap::announce runs holding %s" % an, {"held": [list(map(str, c)) for c in an]})
    c1 = held_at("TorrentMapShards::clean_and_get_statistics", r"PeerMap::clean_and_get_num_peers$|LargePeerMap::try_shrink$")
    yield ob("R-C04-3", "region#clean#phase1", len(c1) >= 3 and all("torrent.write" in h for _, h in c1), None, None,
             "phase 1 per-torrent cleaning runs holding %s (no shard guard across it)" % sorted(set(h for _, h in c1)), {"held": sorted(set(map(str, (h for _, h in c1))))})
    sc = held_at("TorrentMapShards::scrape", r"PeerMap::scrape_statistics$")
    yield ob("R-C04-3", "region#scrape", sc and all(any(x.startswith("torrent.") for x in h) for _, h in sc), None, None,
             "scrape_statistics runs holding %s" % sc, {"held": [list(map(str, c)) for c in sc]})
    # PeerMap methods themselves never lock (they are always called under the torrent guard)
    inner = sorted(k.replace(SW + "::", "") for k, v in res["may"].items() if v and re.search(r"::(PeerMap|SmallPeerMap|LargePeerMap)::", k))
    yield ob("R-C04-3", "region#peer_map_lock_free", not inner, None, None, "PeerMap methods that may acquire a lock: %s" % inner, trivial=True)
