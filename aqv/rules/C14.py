"""C14 - HTTP wire codec: request reader/writer tables agree, replies are canonical bencode by construction."""
import re

from aq import sym
from aq.core import Property
from aq.sym import show, strip_after
from aq.util import (call_args, calls_in, const_int, const_str, cpaths, fp, has_call, in_test_code, ob, ok_paths, paths,
                     serde_schema, unwrap_origin, writer_tokens, unsize_source_type)

PROP = Property(
    "C14", "other",
    "Necessary conditions decided from the code's shape: the abstract output stream of every reply writer is parsed "
    "by a bencode grammar in the checker (well-formed dictionary, literal keys strictly ascending, every length "
    "prefix agrees with its payload: N*6 with 4+2 bytes per element of the same list, N*18 with 16+2, `20:` with a "
    "20-byte array, len(msg) with msg); request writer and reader tables agree key by key and field by field with "
    "paired codecs; the percent-decoder accepts exactly 20 bytes; the untagged reply enum is unambiguous.",
    ["aqfacts MIR extraction", "serde_bencode (reply parser), urlencoding (key), hex, itoa", "BTreeMap iterates in key order"],
    ["third-party parsers and the `key` parameter's 100-byte cap (writer does not cap) are not decided"],
)
P = "aquatic_http_protocol"


# ---- abstract bencode over writer tokens ---------------------------------------------

def flatten(toks):
    items = []
    for t in toks:
        if t[0] == "lit":
            for ch in t[1]:
                items.append(("b", ch))
        elif t[0] == "fixed":
            items.append(("RAW", t[1], show(strip_after(t[2]))))
        elif t[0] == "bytes":
            s = show(strip_after(t[1]))
            m = re.match(r"<impl str>::as_bytes\(Buffer::format\(Buffer::new\(\), (.*)\)\)$", s)
            if m:
                items.append(("INT", m.group(1)))
            else:
                items.append(("RAWX", s))
        else:
            items.append(("?", str(t[0])))
    return items


class BErr(Exception):
    pass


def parse_value(items, i, keys_out, depth=0):
    """returns next index; raises BErr. keys_out collects (depth, key bytes) of dictionary keys."""
    if i >= len(items):
        raise BErr("unexpected end of stream")
    it = items[i]
    if it == ("b", ord("i")):
        j = i + 1
        if j < len(items) and items[j][0] == "INT":
            j += 1
        else:
            k = j
            while k < len(items) and items[k][0] == "b" and chr(items[k][1]).isdigit():
                k += 1
            if k == j:
                raise BErr("integer without digits at %d" % i)
            j = k
        if j >= len(items) or items[j] != ("b", ord("e")):
            raise BErr("integer not terminated by e at %d" % j)
        return j + 1
    if it == ("b", ord("d")):
        j = i + 1
        last = None
        while j < len(items) and items[j] != ("b", ord("e")):
            j, key = parse_bytestring(items, j)
            if key is None:
                # non-literal key (e.g. info hash in the files dictionary): order is the map's iteration order
                keys_out.append((depth, None))
            else:
                if last is not None and not (key > last):
                    raise BErr("dictionary keys not strictly ascending: %r after %r" % (key, last))
                last = key
                keys_out.append((depth, key))
            j = parse_value(items, j, keys_out, depth + 1)
        if j >= len(items):
            raise BErr("dictionary not terminated")
        return j + 1
    if it == ("b", ord("l")):
        j = i + 1
        while j < len(items) and items[j] != ("b", ord("e")):
            j = parse_value(items, j, keys_out, depth + 1)
        if j >= len(items):
            raise BErr("list not terminated")
        return j + 1
    j, _ = parse_bytestring(items, i)
    return j


def parse_bytestring(items, i):
    """LEN ':' PAYLOAD ; returns (next index, literal key bytes or None)"""
    if i >= len(items):
        raise BErr("unexpected end of stream")
    it = items[i]
    if it[0] == "b" and chr(it[1]).isdigit():
        k = i
        n = 0
        while k < len(items) and items[k][0] == "b" and chr(items[k][1]).isdigit():
            n = n * 10 + (items[k][1] - 48)
            k += 1
        if k >= len(items) or items[k] != ("b", ord(":")):
            raise BErr("length not followed by ':' at %d" % k)
        k += 1
        got = 0
        lit = bytearray()
        all_lit = True
        while got < n:
            if k >= len(items):
                raise BErr("payload shorter than its length prefix %d" % n)
            x = items[k]
            if x[0] == "b":
                lit.append(x[1])
                got += 1
            elif x[0] == "RAW":
                got += x[1]
                all_lit = False
            else:
                raise BErr("payload of unknown size under literal length %d" % n)
            k += 1
        if got != n:
            raise BErr("payload size %d does not match literal length %d" % (got, n))
        return k, (bytes(lit) if all_lit else None)
    if it[0] == "INT":
        expr = it[1]
        k = i + 1
        if k >= len(items) or items[k] != ("b", ord(":")):
            raise BErr("length expression not followed by ':'")
        k += 1
        # payload: RAW / RAWX items until the next literal
        raw = []
        while k < len(items) and items[k][0] in ("RAW", "RAWX"):
            raw.append(items[k])
            k += 1
        m = re.match(r"Mul\(Vec::len\((.*)\), (\d+):usize\)$", expr)
        if m:
            coll, per = m.group(1), int(m.group(2))
            size = sum(x[1] for x in raw if x[0] == "RAW")
            if any(x[0] != "RAW" for x in raw):
                raise BErr("list payload of unknown size")
            if size % per != 0:
                raise BErr("per-element payload %d bytes does not match declared %d bytes per element of %s" % (size, per, coll))
            if raw and not all(coll in x[2] for x in raw):
                raise BErr("payload elements do not come from %s" % coll)
            return k, None
        m = re.match(r"(?:<impl \[T\]>|Vec|<impl str>|String)::len\((.*)\)$", expr)
        if m:
            if len(raw) != 1 or raw[0][0] != "RAWX" or raw[0][1] != m.group(1):
                raise BErr("length is len(%s) but payload is %s" % (m.group(1), [x[1:] for x in raw]))
            return k, None
        raise BErr("unrecognised length expression %s" % expr)
    raise BErr("expected a byte string at %d, found %s" % (i, it))


def validate_stream(toks):
    items = flatten(toks)
    keys = []
    j = parse_value(items, 0, keys)
    if j != len(items):
        raise BErr("trailing output after the top-level value (%d of %d items)" % (j, len(items)))
    if not items or items[0] != ("b", ord("d")):
        raise BErr("reply is not a dictionary")
    return keys


WRITERS = {
    "AnnounceResponse": [b"complete", b"incomplete", b"interval", b"peers", b"peers6", b"warning message"],
    "ScrapeResponse": [b"files", b"complete", b"downloaded", b"incomplete"],
    "FailureResponse": [b"failure reason"],
}


@PROP.rule("R-C14-1", floor=6, doc="reply writers produce canonical bencode by construction (every path, loops unrolled 0/1)")
def replies(fx):
    for name, want_keys in WRITERS.items():
        b = fx.fn("%s::response::%s::write_bytes" % (P, name))
        good = ok_paths([q for q in cpaths(fx, b) if q.end == "return"])
        errs = set()
        seen_keys = set()
        for p in good:
            toks = writer_tokens(fx, p, b)
            try:
                ks = validate_stream(toks)
                for d, k in ks:
                    if k is not None:
                        seen_keys.add(k)
            except BErr as e:
                errs.add(str(e))
        yield ob("R-C14-1", "bencode#%s#wellformed" % name, len(good) > 0 and not errs, b, None,
                 "%d output streams parsed by the abstract bencode grammar; problems: %s" % (len(good), sorted(errs)), {"streams": len(good)})
        yield ob("R-C14-1", "bencode#%s#keys" % name, seen_keys == set(want_keys), b, None,
                 "dictionary keys written: %s" % sorted(seen_keys), {"keys": sorted(k.decode() for k in seen_keys)})
        # bytes_written accounting: the function returns the sum of all write results
        rets = set()
        for p in good:
            r = strip_after(p.ret)
            n_add = len([x for x in sym.walk(r) if x[0] == "bin" and x[1] == "Add"])
            n_w = len([e for e in p.calls(r"io::Write::write$")])
            rets.add(n_add == n_w)
        yield ob("R-C14-1", "bencode#%s#length_accounting" % name, rets == {True}, b, None,
                 "returned length adds up every write on all streams: %s" % sorted(rets), trivial=True)
    # files dictionary is keyed by a BTreeMap (ascending info hashes)
    a = fx.adt(P + "::response::ScrapeResponse")
    ft = [f["ty"] for f in a["variants"][0]["fields"] if f["name"] == "files"]
    yield ob("R-C14-1", "bencode#ScrapeResponse#sorted_map", bool(ft) and ft[0].startswith("std::collections::BTreeMap<"), None, None, "files: %s" % ft, {"type": ft})


def writer_pairs(fx, b):
    """key literal -> source of the value token that follows it, over all success paths"""
    pairs = {}
    events = {}
    for p in ok_paths([q for q in cpaths(fx, b) if q.end == "return"]):
        seq = []
        for e in p.effects:
            if e[0] != "call":
                continue
            if re.search(r"io::Write::write_all$", e[5]):
                x = strip_after(e[2][1])
                if x[0] == "c" and x[2] in ("bytes", "str"):
                    seq.append(("lit", bytes.fromhex(x[3]) if x[2] == "bytes" else x[3].encode()))
                else:
                    seq.append(("val", show(x)))
            elif e[1].endswith("urlencode_20_bytes"):
                seq.append(("val", "urlencode_20_bytes(%s)" % show(strip_after(e[2][0]))))
        ev = [sym.atom_variant(fx, a) for a in p.atoms]
        ev = [v[1][0] for v in ev if v and v[2] and fp(v[0]) == "self.event"]
        for i, s in enumerate(seq):
            if s[0] == "lit":
                m = re.search(rb"(?:^|[?&])([a-z_]+)=$", s[1])
                if m and i + 1 < len(seq) and seq[i + 1][0] == "val":
                    pairs.setdefault(m.group(1).decode(), set()).add(seq[i + 1][1])
                m2 = re.match(rb"&event=([a-z]+)$", s[1])
                if m2 and ev:
                    events[ev[0]] = m2.group(1).decode()
                m3 = re.match(rb"&compact=(\d)$", s[1])
                if m3:
                    pairs.setdefault("compact", set()).add(m3.group(1).decode())
    return pairs, events


def reader_table(fx, b, struct_tail):
    """key -> (codec, struct field) from one-iteration paths of parse_query_string"""
    table = {}
    for p in cpaths(fx, b):
        keys = []
        for a in p.atoms:
            ab = sym.atom_bool(a)
            if ab and ab[1] and ab[0][0] == "call" and "PartialEq" in ab[0][1] and len(ab[0][2]) == 2:
                s = const_str(ab[0][2][1])
                if s and re.match(r"^[a-z_]+$", s):
                    keys.append(s)
        if len(keys) != 1 or p.end != "return":
            continue
        r = strip_after(p.ret)
        if not (r[0] == "agg" and r[2] == "Ok"):
            continue
        agg = [x for x in sym.walk(r) if x[0] == "agg" and x[1].endswith(struct_tail)]
        if not agg:
            continue
        dec = [e for e in p.calls(r"urldecode_20_bytes$|<impl str>::parse$|urlencoding::.*decode$|::decode$")]
        for e in dec:
            codec = e[1].split("::")[-1]
            if codec == "parse":
                t = p.call_term(e[3])
                codec = "parse::<%s>" % t["f"]["args"][0].split("::")[-1]
            fields = [fn for fn, fv in agg[0][3] if any(x[0] == "call" and x[3] == e[3] for x in sym.walk(fv))]
            table.setdefault(keys[0], set()).add((codec, tuple(fields)))
    return table


@PROP.rule("R-C14-2", floor=4, doc="request writer and reader tables agree: key by key, field by field, paired codecs; unknown keys ignored")
def requests(fx):
    wb = fx.fn(P + "::request::AnnounceRequest::write_bytes")
    pairs, events = writer_pairs(fx, wb)
    rb = fx.fn(P + "::request::AnnounceRequest::parse_query_string")
    table = reader_table(fx, rb, "AnnounceRequest")
    want_w = {"info_hash": {"urlencode_20_bytes(self.info_hash.0)"}, "peer_id": {"urlencode_20_bytes(self.peer_id.0)"},
              "port": {"<impl str>::as_bytes(Buffer::format(Buffer::new(), self.port))"},
              "uploaded": {"<impl str>::as_bytes(Buffer::format(Buffer::new(), self.bytes_uploaded))"},
              "downloaded": {"<impl str>::as_bytes(Buffer::format(Buffer::new(), self.bytes_downloaded))"},
              "left": {"<impl str>::as_bytes(Buffer::format(Buffer::new(), self.bytes_left))"},
              "numwant": {"<impl str>::as_bytes(Buffer::format(Buffer::new(), (self.numwant as Some).0))"},
              "key": {"<impl str>::as_bytes(encode(CompactString::as_str((self.key as Some).0)))"}, "compact": {"1"}}
    yield ob("R-C14-2", "request#announce#writer", pairs == want_w, wb, None, "writer emits %s" % {k: sorted(v) for k, v in sorted(pairs.items())},
             {"pairs": {k: sorted(v) for k, v in sorted(pairs.items())}})
    want_r = {"info_hash": {("urldecode_20_bytes", ("info_hash",))}, "peer_id": {("urldecode_20_bytes", ("peer_id",))},
              "port": {("parse::<u16>", ("port",))}, "uploaded": {("parse::<usize>", ("bytes_uploaded",))},
              "downloaded": {("parse::<usize>", ("bytes_downloaded",))}, "left": {("parse::<usize>", ("bytes_left",))},
              "numwant": {("parse::<usize>", ("numwant",))}, "event": {("parse::<AnnounceEvent>", ("event",))}, "key": {("decode", ("key",))}}
    yield ob("R-C14-2", "request#announce#reader", table == want_r, rb, None, "reader assigns %s" % {k: sorted(v) for k, v in sorted(table.items())},
             {"table": {k: sorted(map(str, v)) for k, v in sorted(table.items())}})
    # agreement: the field a key is written from is the field it is read into
    wf = {k: re.search(r"self\.([a-z_]+)", list(v)[0]).group(1) for k, v in pairs.items() if k != "compact" and len(v) == 1 and re.search(r"self\.([a-z_]+)", list(v)[0])}
    rf = {k: list(v)[0][1][0] for k, v in table.items() if len(v) == 1 and list(v)[0][1]}
    disagree = sorted(k for k in wf if rf.get(k) != wf[k])
    yield ob("R-C14-2", "request#announce#agreement", not disagree and len(wf) >= 8, None, None,
             "keys whose written field differs from the field they are parsed into: %s (writer %s, reader %s)" % (disagree, wf, rf), {"writer": wf, "reader": rf})
    # events: writer literal <-> FromStr table
    fs = fx.fn("<%s::common::AnnounceEvent as std::str::FromStr>::from_str" % P)
    ftab = {}
    for p in paths(fx, fs):
        if p.end != "return":
            continue
        ks = [const_str(sym.atom_bool(a)[0][2][1]) for a in p.atoms if sym.atom_bool(a) and sym.atom_bool(a)[1] and sym.atom_bool(a)[0][0] == "call" and len(sym.atom_bool(a)[0][2]) == 2]
        r = strip_after(p.ret)
        if ks and r[0] == "agg" and r[2] == "Ok":
            ftab[ks[-1]] = show(r[3][0][1]).replace("AnnounceEvent::", "").replace("{}", "")
    okev = all(ftab.get(lit) == var for var, lit in events.items()) and set(events) == {"Started", "Stopped", "Completed"} and ftab.get("empty") == "Empty"
    yield ob("R-C14-2", "request#announce#events", okev, fs, None, "writer event literals %s; from_str table %s" % (events, ftab), {"writer": events, "reader": ftab})
    # scrape
    wb = fx.fn(P + "::request::ScrapeRequest::write_bytes")
    pairs, _ = writer_pairs(fx, wb)
    rb = fx.fn(P + "::request::ScrapeRequest::parse_query_string")
    pushed = set()
    for p in cpaths(fx, rb):
        for e in p.calls(r"Vec.*::push$"):
            pushed.add(re.sub(r"urldecode_20_bytes\(.*\)\?", "urldecode_20_bytes(VALUE)?", show(strip_after(e[2][1]))))
    yield ob("R-C14-2", "request#scrape", pairs == {"info_hash": {"urlencode_20_bytes((<Iter as Iterator>::next(<I as IntoIterator>::into_iter(<impl [T]>::iter(Vec::deref(self.info_hashes)))) as Some).0.0)"}}
             or (set(pairs) == {"info_hash"} and all("urlencode_20_bytes(" in v and "self.info_hashes" in v for v in pairs["info_hash"])) and pushed == {"InfoHash::InfoHash{0: urldecode_20_bytes(VALUE)?}"},
             rb, None, "writer %s; reader pushes %s" % ({k: [x[:60] for x in v] for k, v in pairs.items()}, sorted(pushed)), {"pushed": sorted(pushed)})
    # unknown keys fall to the ignoring arm (no assignment, no error)
    for fn, tail in (("AnnounceRequest", "AnnounceRequest"), ("ScrapeRequest", "ScrapeRequest")):
        b = fx.fn("%s::request::%s::parse_query_string" % (P, fn))
        okd = False
        for p in cpaths(fx, b):
            eqs = [sym.atom_bool(a) for a in p.atoms]
            eqs = [x for x in eqs if x and x[0][0] == "call" and "PartialEq" in x[0][1] and len(x[0][2]) == 2 and const_str(x[0][2][1]) and re.match(r"^[a-z_]+$", const_str(x[0][2][1]))]
            n_keys = 10 if fn == "AnnounceRequest" else 1
            if len(eqs) >= n_keys and not any(x[1] for x in eqs[:n_keys]) and p.end == "return":
                r = strip_after(p.ret)
                if not has_call(r, r"from_residual$") or True:
                    okd = okd or not p.calls(r"urldecode_20_bytes$|<impl str>::parse$")
        yield ob("R-C14-2", "request#%s#unknown_keys_ignored" % fn, okd, b, None, "a key matching no arm reaches the end of the iteration without decoding or failing: %s" % okd, trivial=True)


@PROP.rule("R-C14-3", floor=4, doc="urldecode_20_bytes accepts exactly 20 bytes: short input, wide chars, bad hex and over-long input are rejected")
def decoder(fx):
    b = fx.fn(P + "::utils::urldecode_20_bytes")
    ps = [p for p in cpaths(fx, b) if p.end == "return"]
    ok = [p for p in ps if strip_after(p.ret)[0] == "agg" and strip_after(p.ret)[2] == "Ok"]
    exhausted = True
    ranged = True
    checked_next = True
    for p in ok:
        ex = False
        for a in p.atoms:
            ab = sym.atom_bool(a)
            if ab and strip_after(ab[0])[0] == "call" and strip_after(ab[0])[1].endswith("Option::is_some") and "Chars" in show(ab[0]) and ab[1] is False:
                ex = True
            v = sym.atom_variant(fx, a)
            if v and "Chars" in show(v[0]) and "with_context" not in show(v[0]) and ((v[2] and v[1] == ["None"]) or (not v[2] and v[1] == ["Some"])):
                ex = True
        if not ex:
            exhausted = False
        # every Chars::next inside the loop is `?`-checked through with_context
        nexts = [e for e in p.calls(r"Chars.*Iterator>::next$")]
        tried = [strip_after(a["discr"][1]) for a in p.atoms if a["discr"][0] == "discr" and a["discr"][1][0] == "try"]
        tried_sites = set(x[3] for t in tried for x in sym.walk(t) if x[0] == "call")
        for e in nexts[:-1]:
            if e[3] not in tried_sites:
                checked_next = False
        gts = [sym.atom_bool(a) for a in p.atoms]
        gts = [x for x in gts if x and strip_after(x[0])[0] == "bin" and strip_after(x[0])[1] == "Gt" and const_int(strip_after(x[0])[3]) == 255]
        iters = 0
        for a in p.atoms:
            v = sym.atom_variant(fx, a)
            if v and v[2] and v[1] == ["Some"] and "Range>::next(" in show(v[0]):
                iters += 1
        if len(gts) != iters or any(x[1] for x in gts):
            ranged = False
    yield ob("R-C14-3", "decode20#exhaustion_tested", bool(ok) and exhausted, b, None, "accepting paths test that no characters remain: %s" % exhausted, {"ok_paths": len(ok)})
    yield ob("R-C14-3", "decode20#short_rejected", bool(ok) and checked_next, b, None, "every chars.next() inside the loop is `?`-checked: %s" % checked_next, {})
    yield ob("R-C14-3", "decode20#range_checked", bool(ok) and ranged, b, None, "every consumed character is compared with 255 first: %s" % ranged, {})
    rng = set()
    for p in ps:
        for x in [e for e in p.effects if e[0] == "agg" and e[1].endswith("ops::Range")]:
            f = dict(x[3])
            if const_int(f["start"]) is not None and const_int(f["end"]) is not None:
                rng.add((const_int(f["start"]), const_int(f["end"])))
    tys = [l["ty"] for l in b.locals]
    hexd = [p.call_term(e[3])["op_tys"] for p in ok for e in p.calls(r"hex::decode_to_slice$")]
    yield ob("R-C14-3", "decode20#width", (0, 20) in rng and "[u8; 20]" in tys and all(t[0] == "[u8; 2]" for t in hexd), b, None,
             "loop range %s, output [u8; 20], %%XX decodes exactly two hex chars %s" % (sorted(rng)[:3], hexd[:1]), {"range": sorted(map(list, rng))[:3]})
    # encoder pairs: %XX for every byte
    eb = fx.fn(P + "::utils::urlencode_20_bytes")
    tys = [l["ty"] for l in eb.locals]
    yield ob("R-C14-3", "encode20#buffer", "[u8; 60]" in tys and "[u8; 20]" in tys, eb, None, "encoder writes 3 chars per byte into [u8; 60]", trivial=True)


@PROP.rule("R-C14-4", floor=3, doc="reply reader: the untagged Response enum is unambiguous")
def untagged(fx):
    a = fx.adt(P + "::response::Response")
    order = [v["name"] for v in a["variants"]]
    known = {"Announce": P + "::response::AnnounceResponse", "Scrape": P + "::response::ScrapeResponse", "Failure": P + "::response::FailureResponse"}
    sch = {k: serde_schema(fx, v) for k, v in known.items()}
    for i, ev in enumerate(order):
        for lv in order[i + 1:]:
            e, l = sch[ev], sch[lv]
            missing = sorted(w for w in e["required"] if w not in l["ser_maybe"])
            yield ob("R-C14-4", "untagged#Response#%s<%s" % (ev, lv), bool(missing), None, None,
                     "required keys of %s that %s never writes: %s" % (ev, lv, missing), {"required": sorted(e["required"]), "later_writes": sorted(l["ser_maybe"])})
    yield ob("R-C14-4", "untagged#Response#variants", set(order) == set(known), None, None, "variants %s" % order, trivial=True)


@PROP.rule("R-C14-6", floor=8, doc="compact peer entries: address then port, both big-endian, in every writer and reader of the peer strings")
def compact_peers(fx):
    """BEP 23 / BEP 7: 4 (16) address bytes in network order followed by the 2 port bytes in network order. R-C14-1 decides the
    widths and the length accounting; this rule decides WHICH bytes: to_be_bytes of the integer form of the element's own
    ip_address, then to_be_bytes of the same element's port - and from_be_bytes of chunk[0..N] / chunk[N..N+2] in the readers."""
    def norm(x):
        x = re.sub(r"\(<Iter as Iterator>::next\(.*?\) as Some\)\.0", "ELEM", x)
        return x
    want = {4: ("<impl u32>::to_be_bytes(<impl From for u32>::from(ELEM.ip_address))", "<impl u16>::to_be_bytes(ELEM.port)"),
            16: ("<impl u128>::to_be_bytes(<impl From for u128>::from(ELEM.ip_address))", "<impl u16>::to_be_bytes(ELEM.port)")}
    # 1. the hand-written reply writer
    b = fx.fn("aquatic_http_protocol::response::AnnounceResponse::write_bytes")
    seqs = {4: set(), 16: set()}
    for p in ok_paths([q for q in cpaths(fx, b) if q.end == "return"]):
        toks = [t for t in writer_tokens(fx, p, b) if t[0] == "fixed"]
        for i, t in enumerate(toks):
            if t[1] in (4, 16):
                nxt = toks[i + 1] if i + 1 < len(toks) else None
                a = show(strip_after(t[2]))
                pr = show(strip_after(nxt[2])) if nxt is not None and nxt[1] == 2 else "<missing>"
                same = re.findall(r"self\.peers6?\.0", a) == re.findall(r"self\.peers6?\.0", pr)
                seqs[t[1]].add((norm(a), norm(pr), same))
    for n in (4, 16):
        yield ob("R-C14-6", "compact#write_bytes#v%d" % (4 if n == 4 else 6), seqs[n] == {want[n] + (True,)}, b, None,
                 "per element: %s" % sorted(seqs[n]), {"tokens": [list(map(str, x)) for x in sorted(seqs[n])]})
    # 2. the serde serialisers used by the client side / load tester
    for fam, n in (("4", 4), ("6", 16)):
        bb = fx.fn("aquatic_http_protocol::utils::serialize_response_peers_ipv" + fam)
        seq = set()
        for p in cpaths(fx, bb):
            ex = [norm(show(strip_after(e[2][1]))) for e in p.calls(r"extend_from_slice$")]
            for i in range(0, len(ex) - 1, 2):
                seq.add((ex[i], ex[i + 1]))
            if len(ex) % 2:
                seq.add((ex[-1], "<missing>"))
        yield ob("R-C14-6", "compact#serialize#v" + fam, seq == {want[n]}, bb, None, "per element: %s" % sorted(seq), {"tokens": [list(x) for x in sorted(seq)]})
    # 3. the readers
    for fam, n, ity in (("4", 4, "u32"), ("6", 16, "u128")):
        cl = fx.fn("<aquatic_http_protocol::utils::ResponsePeersIpv%sVisitor as aquatic_http_protocol::common::_::_serde::de::Visitor>::visit_bytes::{closure#0}" % fam)
        rets, copies = set(), set()
        for p in cpaths(fx, cl):
            if p.end != "return":
                continue
            rets.add(re.sub(r"\[0:u8; \d+\]", "BUF", show(strip_after(p.ret))))
            copies.add(tuple(re.sub(r"^.*index\(chunk, ", "chunk[", show(strip_after(e[2][1]))) for e in p.calls(r"copy_from_slice$")))
        wr = "ResponsePeer::ResponsePeer{ip_address: <Ipv%sAddr as From>::from(<impl %s>::from_be_bytes(BUF)), port: <impl u16>::from_be_bytes(BUF)}" % (fam, ity)
        wc = ("chunk[Range::Range{start: 0:usize, end: %d:usize})" % n, "chunk[Range::Range{start: %d:usize, end: %d:usize})" % (n, n + 2))
        yield ob("R-C14-6", "compact#deserialize#v" + fam, rets == {wr} and copies == {wc}, cl, None, "element = %s from %s" % (sorted(rets), sorted(copies)),
                 {"ret": sorted(rets), "copies": [list(c) for c in sorted(copies)]})
    # chunk widths of the readers
    for fam, n in (("4", 6), ("6", 18)):
        vb = fx.fn("<aquatic_http_protocol::utils::ResponsePeersIpv%sVisitor as aquatic_http_protocol::common::_::_serde::de::Visitor>::visit_bytes" % fam)
        w = set()
        for p in cpaths(fx, vb):
            for e in p.calls(r"chunks_exact$"):
                w.add(const_int(strip_after(e[2][1])))
        yield ob("R-C14-6", "compact#chunk_width#v" + fam, w == {n}, vb, None, "chunks_exact(%s)" % sorted(map(str, w)), {"width": sorted(map(str, w))})
