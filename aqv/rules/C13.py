"""C13 - UDP wire codec conforms to BEP 15 (layout, codes, writer/reader tables, rejection paths)."""
import re

from aq import sym
from aq.core import Property
from aq.util import (calls_in, const_int, const_str, fp, has_call, ob, ok_paths, path_desc, paths,
                     unit_layout, unwrap_origin, writer_tokens)
from aq.sym import show, strip_after

PROP = Property(
    "C13", "proof",
    "BEP 15 conformance of the UDP codec decided from rustc's computed layouts (field offsets, sizes, "
    "big-endian leaf types), enum discriminants, the literal action codes of every writer, the dispatch "
    "tables of both parsers and the complete path table of Request::parse_bytes. For zerocopy types "
    "serialisation is the memory image, so layout facts decide the byte format for all field values.",
    ["rustc layout computation (layout_of)", "zerocopy IntoBytes/FromBytes/TryFromBytes semantics",
     "byteorder WriteBytesExt", "aqfacts MIR extraction"],
    ["round trip of Vec payloads relies on zerocopy slice casts (trusted)"],
)
U = "aquatic_udp_protocol.lib"
P = "aquatic_udp_protocol"

BE = {8: "I64<zerocopy::byteorder::BigEndian>", 4: "I32<zerocopy::byteorder::BigEndian>", 2: "U16<zerocopy::byteorder::BigEndian>"}

# BEP 15 tables: (field, offset, size, leaf kind)
TABLES = {
    ("AnnounceRequest", None): (98, [
        ("connection_id", 0, 8, "I64"), ("action_placeholder", 8, 4, "enum:AnnounceActionPlaceholder"),
        ("transaction_id", 12, 4, "I32"), ("info_hash", 16, 20, "bytes"), ("peer_id", 36, 20, "bytes"),
        ("bytes_downloaded", 56, 8, "I64"), ("bytes_left", 64, 8, "I64"), ("bytes_uploaded", 72, 8, "I64"),
        ("event", 80, 4, "enum:AnnounceEvent"), ("ip_address", 84, 4, "bytes"), ("key", 88, 4, "I32"),
        ("peers_wanted", 92, 4, "I32"), ("port", 96, 2, "U16")]),
    ("ConnectResponse", None): (12, [("transaction_id", 0, 4, "I32"), ("connection_id", 4, 8, "I64")]),
    ("AnnounceResponseFixedData", None): (16, [
        ("transaction_id", 0, 4, "I32"), ("announce_interval", 4, 4, "I32"), ("leechers", 8, 4, "I32"),
        ("seeders", 12, 4, "I32")]),
    ("TorrentScrapeStatistics", None): (12, [("seeders", 0, 4, "I32"), ("completed", 4, 4, "I32"), ("leechers", 8, 4, "I32")]),
    ("ResponsePeer", "Ipv4AddrBytes"): (6, [("ip_address", 0, 4, "bytes"), ("port", 4, 2, "U16")]),
    ("ResponsePeer", "Ipv6AddrBytes"): (18, [("ip_address", 0, 16, "bytes"), ("port", 16, 2, "U16")]),
    ("InfoHash", None): (20, [("0", 0, 20, "bytes")]),
    ("TransactionId", None): (4, [("0", 0, 4, "I32")]),
    ("ConnectionId", None): (8, [("0", 0, 8, "I64")]),
}


def leaf_kind(fx, ty, depth=0):
    """Resolve a field type through repr(transparent) single-field wrappers to its wire leaf."""
    t = ty.strip()
    m = re.match(r"zerocopy::(?:byteorder::)?(I64|I32|U16|U32|I16|U64)<zerocopy::(?:byteorder::)?(\w+)>$", t)
    if m:
        return m.group(1) if m.group(2) == "BigEndian" else "%s<%s>" % (m.group(1), m.group(2))
    if re.match(r"\[u8; \d+\]$", t):
        return "bytes"
    if depth > 4:
        return "?" + t
    a = fx.adt_opt(t)
    if a is None:
        return "?" + t
    if a["kind"] == "enum":
        return "enum:%s(%s)" % (t.split("::")[-1], a["repr"]["int"])
    if a["kind"] == "struct" and a["repr"]["transparent"] and len(a["variants"][0]["fields"]) == 1:
        return leaf_kind(fx, a["variants"][0]["fields"][0]["ty"], depth + 1)
    return "?" + t


@PROP.rule("R-C13-1", floor=36, doc="struct layouts = BEP 15 table (offset, width, big-endian leaf type, alignment 1)")
def layouts(fx):
    for (name, gen), (size, fields) in TABLES.items():
        lay = unit_layout(fx, U, name, gen)
        key = "%s%s" % (name, "<%s>" % gen if gen else "")
        yield ob("R-C13-1", "layout#%s#size" % key, lay["size"] == size and lay["align"] == 1, None, None,
                 "size %s align %s, BEP 15 requires %d bytes unaligned" % (lay["size"], lay["align"], size),
                 {"type": key, "size": lay["size"], "align": lay["align"], "offsets": lay.get("offsets")})
        got = {f["name"]: (lay["offsets"][i], f.get("size"), f["ty"]) for i, f in enumerate(lay.get("fields", []))}
        yield ob("R-C13-1", "layout#%s#fieldset" % key, sorted(got) == sorted(f[0] for f in fields), None, None,
                 "fields %s" % sorted(got), trivial=True)
        for fname, off, width, kind in fields:
            g = got.get(fname)
            if g is None:
                yield ob("R-C13-1", "layout#%s#%s" % (key, fname), False, None, None, "field missing")
                continue
            lk = leaf_kind(fx, g[2])
            if kind.startswith("enum:"):
                kind_ok = lk == "%s(Fixed(I32, true))" % kind
            else:
                kind_ok = lk == kind
            yield ob("R-C13-1", "layout#%s#%s" % (key, fname), g[0] == off and g[1] == width and kind_ok, None, None,
                     "offset %s size %s leaf %s; BEP 15: offset %d size %d %s" % (g[0], g[1], lk, off, width, kind),
                     {"field": fname, "offset": g[0], "size": g[1], "leaf": lk})


def be_code(discr, width=4):
    return int.from_bytes((int(discr) % (1 << (8 * width))).to_bytes(width, "little"), "big")


@PROP.rule("R-C13-2", floor=7, doc="event / action codes and protocol identifier")
def codes(fx):
    ev = fx.adt(P + "::request::AnnounceEvent")
    got = {v["name"]: be_code(v["discr"]) for v in ev["variants"]}
    want = {"None": 0, "Completed": 1, "Started": 2, "Stopped": 3}
    for n, c in want.items():
        yield ob("R-C13-2", "event#%s" % n, got.get(n) == c, None, None,
                 "AnnounceEvent::%s serialises as %s, BEP 15 says %d" % (n, got.get(n), c), {"variant": n, "wire": got.get(n)})
    yield ob("R-C13-2", "event#set", set(got) == set(want), None, None, "variants %s" % sorted(got), trivial=True)
    ap = fx.adt(P + "::request::AnnounceActionPlaceholder")
    g = {v["name"]: be_code(v["discr"]) for v in ap["variants"]}
    yield ob("R-C13-2", "action_placeholder", g == {"Announce": 1}, None, None, "placeholder codes %s (announce action is 1)" % g, g)
    pid = fx.const_int(P + "::request::PROTOCOL_IDENTIFIER")
    yield ob("R-C13-2", "protocol_identifier", pid == 0x41727101980, None, None, "PROTOCOL_IDENTIFIER = %#x" % pid, {"value": pid})


# expected writer streams: list of token matchers
def T_int(bits, value=None, name=None):
    return ("int", bits, value, name)


def T_img(tytail, src):
    return ("image", tytail, src)


WRITERS = {
    "request::ConnectRequest::write_bytes": [T_int(64, 0x41727101980), T_int(32, 0), T_img("TransactionId", "self.transaction_id")],
    "request::AnnounceRequest::write_bytes": [T_img("AnnounceRequest", "self")],
    "request::ScrapeRequest::write_bytes": [T_img("ConnectionId", "self.connection_id"), T_int(32, 2),
                                            T_img("TransactionId", "self.transaction_id"), T_img("[InfoHash]", "self.info_hashes")],
    "response::ConnectResponse::write_bytes": [T_int(32, 0), T_img("ConnectResponse", "self")],
    "response::AnnounceResponse::write_bytes": [T_int(32, 1), T_img("AnnounceResponseFixedData", "self.fixed"),
                                                T_img("[ResponsePeer<I>]", "self.peers")],
    "response::ScrapeResponse::write_bytes": [T_int(32, 2), T_img("TransactionId", "self.transaction_id"),
                                              T_img("[TorrentScrapeStatistics]", "self.torrent_stats")],
    "response::ErrorResponse::write_bytes": [T_int(32, 3), T_img("TransactionId", "self.transaction_id"), ("bytes", "self.message")],
}


def tok_matches(tok, want):
    if want[0] == "int":
        if tok[0] != "int" or tok[1] != want[1] or tok[2] != "i":
            return False
        if not tok[3] or not any("BigEndian" in t or "NetworkEndian" in t for t in tok[3]):
            return False
        return const_int(tok[4]) == want[2]
    if want[0] == "image":
        if tok[0] != "image" or tok[1] is None:
            return False
        tt = re.sub(r"[a-z_0-9]+::", "", tok[1])
        src = fp(unwrap_origin(tok[2], [r"Vec<T, A>::as_slice$", r"Vec::as_slice$"]))
        return tt == want[1] and src == want[2]
    if want[0] == "bytes":
        if tok[0] != "bytes":
            return False
        src = fp(unwrap_origin(tok[1], [r"str>?::as_bytes$", r"Cow.*deref$"]))
        return src == want[1]
    return False


def tok_show(tok):
    if tok[0] == "int":
        return "%s%d<%s>(%s)" % (tok[2], tok[1], ",".join(t.split("::")[-1] for t in tok[3]), show(tok[4]))
    if tok[0] == "image":
        return "image<%s>(%s)" % (re.sub(r"[a-z_0-9]+::", "", tok[1] or "?"), show(tok[2]))
    if tok[0] == "lit":
        return repr(tok[1])
    if tok[0] == "bytes":
        return "bytes(%s)" % show(tok[1])
    return "sub(%s)" % tok[1]


@PROP.rule("R-C13-3w", floor=14, doc="writer stream of every write_bytes = BEP 15 message table; errors are propagated")
def writers(fx):
    for short, want in WRITERS.items():
        b = fx.fn("%s::%s" % (P, short))
        ps = paths(fx, b)
        good = ok_paths(ps)
        key = short.replace("::write_bytes", "")
        toks = writer_tokens(fx, good[0]) if len(good) == 1 else []
        match = len(good) == 1 and len(toks) == len(want) and all(tok_matches(t, w) for t, w in zip(toks, want))
        yield ob("R-C13-3w", "writer#%s#stream" % key, match, b, None,
                 "stream on the success path: %s; expected %s" % ([tok_show(t) for t in toks], want),
                 {"stream": [tok_show(t) for t in toks]})
        # every other returning path propagates the io error of a write (no swallowed failure)
        # every write's io::Result is either `?`-propagated or is the function's return value
        prop_ok = len(good) == 1
        nw = 0
        if prop_ok:
            p = good[0]
            tried = [sym.strip_after(a["discr"][1]) for a in p.atoms if a["discr"][0] == "discr" and a["discr"][1][0] == "try"]
            tried = [t[1] for t in tried]
            for e in p.calls(r"WriteBytesExt::write_|io::Write::write"):
                nw += 1
                res = ("call", e[1], e[2], e[3])
                sites = [t[3] for t in tried if t[0] == "call"]
                if not (e[3] in sites or (p.ret[0] == "call" and p.ret[3] == e[3])):
                    prop_ok = False
        yield ob("R-C13-3w", "writer#%s#errors" % key, prop_ok and nw == len(want), b, None,
                 "%d writes; each io::Result must be `?`-propagated or returned" % nw, {"writes": nw})


DISPATCH = {
    "request::Request::write_bytes": {"Connect": "ConnectRequest", "Announce": "AnnounceRequest", "Scrape": "ScrapeRequest"},
    "response::Response::write_bytes": {"Connect": "ConnectResponse", "AnnounceIpv4": "AnnounceResponse", "AnnounceIpv6": "AnnounceResponse",
                                        "Scrape": "ScrapeResponse", "Error": "ErrorResponse"},
}


@PROP.rule("R-C13-3d", floor=8, doc="enum write_bytes dispatches each variant to its own message writer with its own payload")
def dispatch(fx):
    for short, table in DISPATCH.items():
        b = fx.fn("%s::%s" % (P, short))
        seen = {}
        for p in paths(fx, b):
            if p.end != "return":
                continue
            v = [sym.atom_variant(fx, a) for a in p.atoms]
            v = [x for x in v if x and x[2] and fp(x[0]) == "self"]
            if len(v) != 1:
                continue
            variant = v[0][1][0]
            r = p.ret
            callee = r[1] if r[0] == "call" else "?"
            payload = fp(r[2][0]) if r[0] == "call" and r[2] else "?"
            seen[variant] = (callee, payload)
        for variant, writer in table.items():
            g = seen.get(variant)
            okv = g is not None and re.search(r"::%s::write_bytes$" % writer, g[0]) and g[1] == "self.%s.0" % variant
            yield ob("R-C13-3d", "dispatch#%s#%s" % (short.split("::")[1], variant), okv, b, None,
                     "variant %s -> %s" % (variant, g), {"variant": variant, "callee": g[0] if g else None})


def reads_of(p):
    """Ordered cursor reads on a path: [(width-fn, site)]"""
    return [(e[1].split("::")[-1], e[3]) for e in p.effects if e[0] == "call" and re.search(r"::read_[iu]\d+_ne$", e[1])]


def origin_read(e):
    """site of the read_*_ne call an expression originates from (through map/map_err/?), plus ctor"""
    e = sym.strip_after(e)
    ctor = None
    cur = e
    for _ in range(12):
        cur = unwrap_origin(cur)
        if cur[0] == "call" and re.search(r"Result::map$", cur[1]) or (cur[0] == "call" and cur[1].endswith("::map") and "Result" in cur[1]):
            if cur[2][1][0] == "c" and cur[2][1][2] == "fn":
                ctor = cur[2][1][3].split("::")[-1]
            cur = cur[2][0]
            continue
        break
    if cur[0] == "call" and re.search(r"::read_[iu]\d+_ne$", cur[1]):
        return cur[1].split("::")[-1], cur[3], ctor
    return None


@PROP.rule("R-C13-3r", floor=9, doc="fixed-width readers: widths, order and field assignment; read_*_ne read exactly N bytes big-endian")
def readers(fx):
    for fn, n, ty in (("read_i32_ne", 4, "I32"), ("read_i64_ne", 8, "I64"), ("read_u16_ne", 2, "U16")):
        b = fx.fn("%s::common::%s" % (P, fn))
        good = ok_paths(paths(fx, b))
        okr = False
        detail = ""
        if len(good) == 1:
            p = good[0]
            rd = p.calls(r"Read::read_exact$")
            fb = p.calls(r"%s::from_bytes$" % ty)
            buf_ty = None
            if rd:
                t = p.call_term(rd[0][3])
                buf_ty = t["op_tys"][1] if t else None
            endian = fb[0][6] if fb else ()
            okr = len(rd) == 1 and len(fb) == 1 and bool(re.search(r"\[u8(; %d)?\]" % n, buf_ty or "")) \
                and any("BigEndian" in x for x in endian) and "[u8; %d]" % n in [l["ty"] for l in b.locals] \
                and "[u8; %d]" % n in (p.call_term(fb[0][3])["op_tys"][0])
            detail = "read_exact into %s, %s::from_bytes<%s>" % (buf_ty, ty, ",".join(endian))
        yield ob("R-C13-3r", "reader#%s" % fn, okr, b, None, detail or "no single success path", {"fn": fn, "shape": detail})

    b = fx.fn(P + "::request::Request::parse_bytes")
    ps = paths(fx, b)
    # action selector: bytes.get(8..12) -> I32<BigEndian>::from_bytes
    sel = None
    for p in ps:
        for a in p.atoms:
            if a["label"][0] == "sw" and a.get("ty") == "i32":
                sel = a["discr"]
    oksel = False
    d = ""
    if sel is not None:
        rng = [x for x in sym.walk(sel) if x[0] == "agg" and x[1].endswith("Range") and x[2] == "Range"]
        g = calls_in(sel, r"(slice|\[T\]).*::get$|SliceIndex|::get$")
        okrng = bool(rng) and const_int(dict(rng[0][3])["start"]) == 8 and const_int(dict(rng[0][3])["end"]) == 12
        root = [x for x in sym.walk(sel) if x[0] == "p"]
        c0 = fx.fn_opt(P + "::request::Request::parse_bytes::{closure#0}")
        okc = False
        if c0 is not None:
            cp = [q for q in paths(fx, c0) if q.end == "return"]
            okc = len(cp) == 1 and any(re.search(r"I32::from_bytes$", e[1]) and any("BigEndian" in t for t in e[6]) for e in cp[0].calls())
        okget = sel[0] == "call" and sel[1].endswith("I32::get")
        oksel = okrng and okc and okget and all(x[2] == "bytes" for x in root)
        d = "action = %s; closure#0 decodes big-endian I32: %s" % (show(sel)[:160], okc)
    yield ob("R-C13-3r", "request#action_selector", oksel, b, None, d or "no i32 action switch found", {"selector": d})

    # per action: reads and assignment
    want = {
        0: ("Connect", ["read_i64_ne", "read_i32_ne", "read_i32_ne"], {"transaction_id": 2}),
        2: ("Scrape", ["read_i64_ne", "read_i32_ne", "read_i32_ne"], {"connection_id": 0, "transaction_id": 2}),
    }
    for action, (variant, seq, assign) in want.items():
        good = [p for p in ok_paths(ps) if any(a["label"] == ("sw", action) and a.get("ty") == "i32" for a in p.atoms)]
        okv = len(good) == 1
        d = "%d success paths" % len(good)
        if okv:
            p = good[0]
            rs = reads_of(p)
            okv = [r[0] for r in rs] == seq
            d = "reads %s" % [r[0] for r in rs]
            aggs = [x for x in sym.walk(p.ret) if x[0] == "agg" and x[1].endswith("%sRequest" % variant)]
            if not aggs:
                okv = False
                d += "; no %sRequest constructed" % variant
            else:
                fields = dict(aggs[0][3])
                for fname, idx in assign.items():
                    o = origin_read(fields.get(fname, ("u", 0)))
                    if not (o and idx < len(rs) and o[1] == rs[idx][1]):
                        okv = False
                    d += "; %s <- read #%s (%s)" % (fname, [i for i, r in enumerate(rs) if o and r[1] == o[1]], o[2] if o else None)
            if action == 0:
                # protocol id is the first read, compared for equality with PROTOCOL_IDENTIFIER
                at = [sym.atom_bool(a) for a in p.atoms]
                at = [x for x in at if x and x[0][0] == "bin" and x[0][1] == "Eq" and x[1]]
                okp = False
                for x in at:
                    o = origin_read(x[0][2][2][0]) if x[0][2][0] == "call" and x[0][2][1].endswith("I64::get") else None
                    if o and o[1] == rs[0][1] and const_int(x[0][3]) == 0x41727101980:
                        okp = True
                okv = okv and okp
                d += "; protocol id == first read: %s" % okp
        yield ob("R-C13-3r", "request#%s#fields" % variant.lower(), okv, b, None, d, {"action": action, "shape": d})

    # Response::parse_bytes dispatch table
    b = fx.fn(P + "::response::Response::parse_bytes")
    rps = paths(fx, b)
    table = {}
    for p in ok_paths(rps):
        acts = [a["label"][1] for a in p.atoms if a["label"][0] == "sw" and a.get("ty") == "i32"]
        if len(acts) != 1:
            continue
        aggs = [x for x in sym.walk(p.ret) if x[0] == "agg" and x[1].endswith("::Response") or (x[0] == "agg" and x[1].endswith("Response") and x[1].split("::")[-1] != "Response")]
        names = sorted(set((x[1].split("::")[-1] + ("::" + x[2] if x[1].endswith("::Response") else "")) for x in aggs))
        ipv4 = [sym.atom_bool(a) for a in p.atoms]
        ipv4 = [x[1] for x in ipv4 if x and fp(x[0]) == "ipv4"]
        slices = sorted(set(re.sub(r"[a-z_0-9]+::", "", p.call_term(e[3])["f"]["args"][0]) for e in p.calls(r"FromBytes::(ref_from_bytes|read_from_bytes|read_from_prefix)$")))
        first = reads_of(p)
        table[(acts[0], tuple(ipv4))] = (names, slices, [r[0] for r in first])
    want_r = {
        (0, ()): ("Response::Connect", ["ConnectResponse"], ["read_i32_ne"]),
        (1, (True,)): ("Response::AnnounceIpv4", ["AnnounceResponseFixedData", "[ResponsePeer<Ipv4AddrBytes>]"], ["read_i32_ne"]),
        (1, (False, False)): ("Response::AnnounceIpv6", ["AnnounceResponseFixedData", "[ResponsePeer<Ipv6AddrBytes>]"], ["read_i32_ne"]),
        (2, ()): ("ScrapeResponse", ["[TorrentScrapeStatistics]"], ["read_i32_ne", "read_i32_ne"]),
        (3, ()): ("ErrorResponse", [], ["read_i32_ne", "read_i32_ne"]),
    }
    norm = {}
    for (act, ip), v in table.items():
        # `1 if ipv4` / `1 if !ipv4`: the second arm is reached after ipv4 tested false, then !ipv4 true
        k = (act, ip)
        if act == 1 and ip and ip[0] is False:
            k = (1, (False, False))
        norm[k] = v
    for k, (variant, slices, reads) in want_r.items():
        g = norm.get(k)
        okv = g is not None and any(variant == n or n.startswith(variant) for n in g[0]) and g[1] == sorted(slices) and g[2] == reads
        yield ob("R-C13-3r", "response#action%d%s" % (k[0], "#v4" if k[1] == (True,) else "#v6" if k[1] else ""), okv, b, None,
                 "action %s ipv4=%s -> %s" % (k[0], k[1], g), {"action": k[0], "got": g})


@PROP.rule("R-C13-4", floor=9, doc="complete path table of Request::parse_bytes: acceptance and rejection")
def request_paths(fx):
    b = fx.fn(P + "::request::Request::parse_bytes")
    ps = [p for p in paths(fx, b) if p.end == "return"]
    by_action = {}
    for p in ps:
        acts = [a["label"] for a in p.atoms if a.get("ty") == "i32"]
        by_action.setdefault(acts[0] if acts else None, []).append(p)

    def is_err(p, kind=None, text=None):
        r = p.ret
        if has_call(r, r"from_residual$"):
            return kind in (None, "propagated")
        if r[0] == "agg" and r[2] == "Err":
            c = calls_in(r, r"RequestParseError::(sendable_text|unsendable_text|unsendable_io)$")
            if not c:
                return False
            k = c[0][1].split("::")[-1]
            if kind and kind != k:
                return False
            return text is None or const_str(c[0][2][0]) == text
        return False

    # 1. too few bytes for an action -> error, nothing else is reachable without the action
    short = by_action.get(None, [])
    yield ob("R-C13-4", "parse#short_input", len(short) == 1 and is_err(short[0], "propagated"), b, None,
             "paths without an action value: %d (must be exactly the `?` of bytes.get(8..12))" % len(short),
             {"paths": [path_desc(fx, p, 3) for p in short]})
    # 2. unknown action
    other = [p for k, v in by_action.items() if k and k[0] == "not" for p in v]
    yield ob("R-C13-4", "parse#unknown_action", len(other) == 1 and other[0].atoms[-1]["label"] == ("not", (0, 1, 2)) and is_err(other[0], "unsendable_text"),
             b, None, "default arm: %s" % [show(p.ret)[:100] for p in other], {"ret": [show(p.ret)[:100] for p in other]})
    known = sorted(k[1] for k in by_action if k and k[0] == "sw")
    yield ob("R-C13-4", "parse#action_set", known == [0, 1, 2], b, None, "action arms %s (connect 0, announce 1, scrape 2)" % known, trivial=True)
    # 3. announce arm
    ann = by_action.get(("sw", 1), [])
    okp = [p for p in ann if not is_err(p)]
    d = []
    a_ok = len(okp) == 1
    if a_ok:
        p = okp[0]
        r = p.ret
        # Ok(Request::Announce(prefix-read value)), port != 0
        a_ok = r[0] == "agg" and r[2] == "Ok" and has_call(r, r"TryFromBytes::try_read_from_prefix$") and not has_call(r, r"try_read_from_bytes$")
        agg = [x for x in sym.walk(r) if x[0] == "agg" and x[1].endswith("::Request")]
        a_ok = a_ok and bool(agg) and agg[0][2] == "Announce"
        t = [p.call_term(e[3]) for e in p.calls(r"try_read_from_prefix$")]
        a_ok = a_ok and len(t) == 1 and t[0]["f"]["args"][0].endswith("AnnounceRequest")
        d.append("accepts via try_read_from_prefix::<%s> (extension bytes ignored)" % (t[0]["f"]["args"][0].split("::")[-1] if t else "?"))
        src = [x for x in sym.walk(r) if x[0] == "p"]
        a_ok = a_ok and all(x[2] == "bytes" for x in src)
    yield ob("R-C13-4", "parse#announce_accept", a_ok, b, None, "; ".join(d) or "%d accepting paths" % len(okp), {"shape": d})
    port0 = [p for p in ann if is_err(p, "sendable_text")]
    ok0 = len(port0) == 1
    if ok0:
        p = port0[0]
        at = [sym.atom_bool(a) for a in p.atoms]
        at = [x for x in at if x and x[0][0] == "bin"]
        ok0 = len(at) == 1 and at[0][1] is True and at[0][0][1] == "Eq" and const_int(at[0][0][3]) == 0 \
            and show(at[0][0][2]).endswith(".0.port.0)") and "U16::get" in show(at[0][0][2])
        c = calls_in(p.ret, r"sendable_text$")[0]
        ok0 = ok0 and fp(c[2][1]).endswith(".0.connection_id") and fp(c[2][2]).endswith(".0.transaction_id")
    # and the accepting path is on the != 0 edge
    if a_ok and ok0:
        at = [sym.atom_bool(a) for a in okp[0].atoms]
        at = [x for x in at if x and x[0][0] == "bin"]
        ok0 = len(at) == 1 and at[0][1] is False
    yield ob("R-C13-4", "parse#announce_port0", ok0, b, None,
             "port == 0 -> sendable error carrying the request's connection and transaction id; accept only on port != 0",
             {"paths": [path_desc(fx, p, 6)[-160:] for p in port0]})
    yield ob("R-C13-4", "parse#announce_short", sum(1 for p in ann if is_err(p, "propagated")) == 1, b, None,
             "exactly one propagated rejection (prefix read failed)", trivial=True)
    # 4. scrape arm
    scr = by_action.get(("sw", 2), [])
    okp = [p for p in scr if not is_err(p)]
    s_ok = len(okp) == 1
    d = ""
    if s_ok:
        p = okp[0]
        agg = [x for x in sym.walk(p.ret) if x[0] == "agg" and x[1].endswith("ScrapeRequest")]
        s_ok = bool(agg)
        if s_ok:
            ih = dict(agg[0][3])["info_hashes"]
            mins = calls_in(ih, r"Ord::min$|cmp::min$")
            s_ok = len(mins) >= 1
            if s_ok:
                m = mins[0]
                a0, a1 = m[2]
                okm = (a0[0] == "cast" and fp(a0[3]) == "max_scrape_torrents" and a1[0] == "call" and a1[1].endswith("::len")) or \
                      (a1[0] == "cast" and fp(a1[3]) == "max_scrape_torrents" and a0[0] == "call" and a0[1].endswith("::len"))
                rt = [x for x in sym.walk(ih) if x[0] == "agg" and x[1].endswith("RangeTo")]
                s_ok = okm and bool(rt) and dict(rt[0][3])["end"] == m and has_call(ih, r"ref_from_bytes$")
                d = "info_hashes = %s" % re.sub(r"Result::map_err\(.*?\)\?", "hashes", show(ih))[:200]
            # non-empty guard + whole multiple guard on this path
            emp = [sym.atom_bool(a) for a in p.atoms]
            emp = [x for x in emp if x and x[0][0] == "call" and x[0][1].endswith("is_empty")]
            s_ok = s_ok and len(emp) == 1 and emp[0][1] is False
            t = [p.call_term(e[3]) for e in p.calls(r"ref_from_bytes$")]
            s_ok = s_ok and len(t) == 1 and re.sub(r"[a-z_0-9]+::", "", t[0]["f"]["args"][0]) == "[InfoHash]"
    yield ob("R-C13-4", "parse#scrape_accept", s_ok, b, None,
             d or "%d accepting paths" % len(okp), {"shape": d})
    empty = [p for p in scr if is_err(p, "sendable_text", "Full scrapes are not allowed")]
    yield ob("R-C13-4", "parse#scrape_empty", len(empty) == 1 and any((sym.atom_bool(a) or (None, None))[1] is True and "is_empty" in show(a["discr"]) for a in empty[0].atoms),
             b, None, "empty hash list -> sendable error on the is_empty edge", {"paths": len(empty)})
    c3 = fx.fn_opt(P + "::request::Request::parse_bytes::{closure#3}")
    okc3 = False
    if c3 is not None:
        cp = [q for q in paths(fx, c3) if q.end == "return"]
        okc3 = len(cp) == 1 and has_call(cp[0].ret, r"sendable_text$")
    bad = [p for p in scr if is_err(p, "propagated") and has_call(p.ret, r"ref_from_bytes$")]
    yield ob("R-C13-4", "parse#scrape_not_multiple_of_20", len(bad) == 1 and okc3, b, None,
             "ref_from_bytes::<[InfoHash]> failure is propagated as a sendable error (closure#3): %s" % okc3, {"paths": len(bad)})
    # 5. connect arm
    con = by_action.get(("sw", 0), [])
    wrong = [p for p in con if is_err(p, "unsendable_text", "Protocol identifier missing")]
    yield ob("R-C13-4", "parse#connect_wrong_protocol_id", len(wrong) == 1, b, None, "wrong protocol id -> unsendable error", {"paths": len(wrong)})
    # 6. no indexing / unwrap panics besides the reviewed slice after Cursor::position (shared with C12)
    total = len(ps)
    yield ob("R-C13-4", "parse#path_count", total >= 16, b, None, "%d returning paths enumerated" % total, {"paths": total}, trivial=True)


@PROP.rule("R-C13-5", floor=4, doc="address images: Ipv4AddrBytes / Ipv6AddrBytes are the network-order octets of the std address, both ways")
def address_images(fx):
    """The peer address inside an announce reply is an Ipv{4,6}AddrBytes; the trackers fill it with `ip.into()` and clients read it
    back with `.into()`.  BEP 15 wants the address in network byte order = std's octets().  (An integer detour such as
    u128::from(addr).to_ne_bytes() is symmetric, so every round-trip test still passes, but the wire bytes are reversed on a
    little-endian host.)"""
    for fam, n in (("4", 4), ("6", 16)):
        std = "std::net::Ipv%sAddr" % fam
        img = "aquatic_udp_protocol::common::Ipv%sAddrBytes" % fam
        tb = [b for b in fx.bodies.values() if b.short == "<%s as std::convert::From>::from" % img and "From<%s>" % std in b.name]
        okb = False
        got = []
        if len(tb) == 1:
            got = [show(strip_after(p.ret)) for p in paths(fx, tb[0]) if p.end == "return"]
            okb = got == ["Ipv%sAddrBytes::Ipv%sAddrBytes{0: Ipv%sAddr::octets(val)}" % (fam, fam, fam)]
        yield ob("R-C13-5", "address#v%s#to_wire" % fam, okb, tb[0] if tb else None, None, "From<Ipv%sAddr> for Ipv%sAddrBytes = %s" % (fam, fam, got), {"ret": got})
        fb = [b for b in fx.bodies.values() if b.short == "aquatic_udp_protocol::common::<impl std::convert::From for %s>::from" % std]
        okf = False
        got = []
        if len(fb) == 1:
            got = [show(strip_after(p.ret)) for p in paths(fx, fb[0]) if p.end == "return"]
            res = [t["f"].get("res") for i, t in fb[0].calls(r"From.*::from$")]
            okf = got == ["<Ipv%sAddr as From>::from(val.0)" % fam] and res == ["<%s as std::convert::From<[u8; %d]>>::from" % (std, n)]
            got = got + res
        yield ob("R-C13-5", "address#v%s#from_wire" % fam, okf, fb[0] if fb else None, None, "From<Ipv%sAddrBytes> for Ipv%sAddr = %s" % (fam, fam, got), {"ret": got})
