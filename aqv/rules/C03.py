"""C03 - stored peer addresses are the real (canonicalised) source addresses."""
import re

from aq import sym
from aq.core import Property
from aq.sym import show, strip_after
from aq.util import (call_args, calls_in, const_int, const_str, cpaths, field_uses, fp, has_call, in_test_code, ob, ok_paths,
                     param_index, param_roots, paths, unwrap_origin, who_calls, who_constructs)

PROP = Property(
    "C03", "proof",
    "Information-flow property decided from the code's shape: address fields of requests are never read by the "
    "trackers; the ip handed to the swarm is chased hop by hop (all callers, closed world) to the kernel-reported "
    "source (recv_from / recvmsg name / TCP peer_addr) or the last address of the last occurrence of the "
    "configured header; CanonicalSocketAddr can only be built by its canonicalising constructor, whose complete "
    "decision table is the IPv4-mapped pattern; the WebTorrent family classifier uses the same pattern.",
    ["aqfacts MIR extraction", "kernel-reported socket addresses", "httparse header parsing", "std IpAddr parsing"],
    ["dual-stack socket behaviour of the kernel is not decided"],
)
CSA = "aquatic_common::CanonicalSocketAddr"


@PROP.rule("R-C03-1", floor=4, doc="address fields inside requests never influence the stored address")
def taint(fx):
    uses = field_uses(fx, r"AnnounceRequest$", "ip_address", crates=["aquatic_udp"])
    uses = [(b.short, l) for b, l, k in uses if not in_test_code(b)]
    yield ob("R-C03-1", "taint#udp#ip_address_unread", not uses, None, None,
             "reads of AnnounceRequest.ip_address in aquatic_udp: %s" % uses, {"reads": uses})
    ctrl = [b.short for b, l, k in field_uses(fx, r"AnnounceRequest$", "port", crates=["aquatic_udp"]) if not in_test_code(b)]
    yield ob("R-C03-1", "taint#udp#control_port_read", len(ctrl) >= 1, None, None,
             "positive control: AnnounceRequest.port is read in %s" % sorted(set(ctrl)), {"reads": sorted(set(ctrl))}, trivial=True)
    for crate, adt in (("aquatic_http_protocol", "aquatic_http_protocol::request::AnnounceRequest"),
                       ("aquatic_ws_protocol", "aquatic_ws_protocol::incoming::announce::AnnounceRequest")):
        a = fx.adt(adt)
        names = [f["name"] for f in a["variants"][0]["fields"]]
        tys = [f["ty"] for f in a["variants"][0]["fields"]]
        bad = [n for n in names if re.search(r"(^|_)ip($|_|v)|addr", n)] + [t for t in tys if re.search(r"IpAddr|Ipv4Addr|Ipv6Addr|SocketAddr", t)]
        yield ob("R-C03-1", "taint#%s#no_address_field" % crate, not bad and "info_hash" in names, None, None,
                 "AnnounceRequest fields %s" % names, {"fields": names})
    b = fx.fn("aquatic_http_protocol::request::AnnounceRequest::parse_query_string")
    keys = set()
    for i, si, s in b.assigns():
        pass
    for blk in b.blocks:
        t = blk["term"]
        if t["k"] == "call":
            for o in t["ops"]:
                c = o.get("c")
                if c and "str" in c and len(c["str"]) < 24:
                    keys.add(c["str"])
    for pb in [x for x in fx.bodies.values() if x.name.startswith(b.name + "::{promoted") and x.unit == b.unit]:
        for blk in pb.blocks:
            for s in blk["stmts"]:
                if s["k"] == "assign":
                    c = (s["rv"].get("use") or {}).get("c")
                    if c and "str" in c:
                        keys.add(c["str"])
    addr_keys = sorted(k for k in keys if k in ("ip", "ipv4", "ipv6", "ip_address", "addr", "address"))
    yield ob("R-C03-1", "taint#http#query_keys", not addr_keys and {"port", "info_hash", "peer_id"} <= keys, b, None,
             "query keys recognised by the parser: %s" % sorted(k for k in keys if re.match(r"^[a-z_]+$", k)), {"address_keys": addr_keys})


def roots_shown(fx, fn, pname):
    b = fx.fn(fn)
    roots = param_roots(fx, b, param_index(b, pname))
    return b, sorted(set(show(strip_after(e)) for c, l, e in roots))


@PROP.rule("R-C03-2", floor=10, doc="provenance chain from the kernel-reported source to the map key, hop by hop over all callers")
def provenance(fx):
    # UDP: map key
    b = fx.fn("aquatic_udp::swarm::PeerMap::announce")
    keys = set()
    for p in cpaths(fx, b):
        for e in p.effects:
            if e[0] == "agg" and e[1].endswith("ResponsePeer"):
                keys.add(show(("agg", e[1], e[2], e[3])))
    yield ob("R-C03-2", "chain#udp#map_key", keys == {"ResponsePeer::ResponsePeer{ip_address: ip_address, port: request.port}"}, b, None,
             "peer map key: %s" % sorted(keys), {"key": sorted(keys)})
    b, r = roots_shown(fx, "aquatic_udp::swarm::PeerMap::announce", "ip_address")
    want = {"<T as Into>::into((SocketAddr::ip(CanonicalSocketAddr::get(src)) as V4).0)", "<T as Into>::into((SocketAddr::ip(CanonicalSocketAddr::get(src)) as V6).0)"}
    yield ob("R-C03-2", "chain#udp#ip_address", set(r) == want, b, None, "ip_address <- %s" % r, {"roots": r})
    b, r = roots_shown(fx, "aquatic_udp::swarm::TorrentMaps::announce", "src")
    ok_mio = any(re.fullmatch(r"CanonicalSocketAddr::new\(\(UdpSocket::recv_from\(self\.socket, .*\) as Ok\)\.0\.1\)", x) for x in r)
    ok_ur = sum(1 for x in r if re.fullmatch(r"\(RecvHelper::parse\(self\.recv_helper_v[46], .*\) as Ok\)\.0\.1", x)) == 2
    yield ob("R-C03-2", "chain#udp#src", ok_mio and ok_ur and len(r) == 3, b, None, "src <- %s" % [x[:110] for x in r], {"roots": [x[:160] for x in r]})
    for fam, pat in (("V4", r"SocketAddr::V4\{0: SocketAddrV4::new\(<T as Into>::into\(<impl u32>::from_be\(.*name_data.*\.sin_addr\.s_addr\)\), <impl u16>::from_be\(.*name_data.*\.sin_port\)\)\}"),
                     ("V6", r"SocketAddr::V6\{0: SocketAddrV6::new\(<Ipv6Addr as From>::from\(.*name_data.*\.sin6_addr\.s6_addr\), <impl u16>::from_be\(.*name_data.*\.sin6_port\), .*\)\}")):
        hb = fx.fn("<aquatic_udp::workers::socket::uring::recv_helper::RecvHelper%s as aquatic_udp::workers::socket::uring::recv_helper::RecvHelper>::parse" % fam)
        rets = set()
        srcs = set()
        for p in ok_paths([q for q in cpaths(fx, hb) if q.end == "return"]):
            r0 = strip_after(p.ret)
            tup = r0[3][0][1]
            rets.add(show(tup[1][1])[:40])
            for e in p.calls(re.escape(CSA) + r"::new$"):
                srcs.add(show(strip_after(e[2][0])))
        oks = len(srcs) == 1 and re.fullmatch(pat, list(srcs)[0]) is not None and all(x.startswith("CanonicalSocketAddr::new(") for x in rets)
        yield ob("R-C03-2", "chain#udp#uring_name#%s" % fam, oks, hb, None,
                 "returned address %s built from %s" % (sorted(rets), [s[:140] for s in srcs]), {"source": [s[:200] for s in srcs]})
    # HTTP
    b = fx.fn("aquatic_http::workers::swarm::storage::TorrentData::upsert_peer_and_get_response_peers")
    keys = set()
    for p in cpaths(fx, b):
        for e in p.effects:
            if e[0] == "agg" and e[1].endswith("ResponsePeer"):
                keys.add(show(("agg", e[1], e[2], e[3])))
    yield ob("R-C03-2", "chain#http#map_key", keys == {"ResponsePeer::ResponsePeer{ip_address: ip_address, port: request.port}"}, b, None,
             "peer map key: %s" % sorted(keys), {"key": sorted(keys)})
    b, r = roots_shown(fx, "aquatic_http::workers::swarm::storage::TorrentData::upsert_peer_and_get_response_peers", "ip_address")
    want = {"(SocketAddr::ip(CanonicalSocketAddr::get(peer_addr)) as V4).0", "(SocketAddr::ip(CanonicalSocketAddr::get(peer_addr)) as V6).0"}
    yield ob("R-C03-2", "chain#http#ip_address", set(r) == want, b, None, "ip_address <- %s" % r, {"roots": r})
    b, r = roots_shown(fx, "aquatic_http::workers::swarm::storage::TorrentMaps::handle_announce_request", "peer_addr")
    yield ob("R-C03-2", "chain#http#swarm_peer_addr", len(r) == 1 and re.search(r" as Announce\)\.peer_addr$", r[0]) is not None, b, None,
             "peer_addr <- %s" % [x[-90:] for x in r], {"roots": [x[-120:] for x in r]})
    # the ChannelRequest::Announce sent by the socket worker carries the connection's peer_addr
    hb = fx.fn("aquatic_http::workers::socket::connection::Connection::handle_request::{closure#0}")
    sent = set()
    for p in cpaths(fx, hb):
        for e in p.effects:
            if e[0] == "agg" and e[1].endswith("ChannelRequest"):
                sent.add((e[2], show(strip_after(dict(e[3])["peer_addr"]))))
    yield ob("R-C03-2", "chain#http#channel_peer_addr", sent == {("Announce", "peer_addr"), ("Scrape", "peer_addr")}, hb, None,
             "ChannelRequest peer_addr fields: %s" % sorted(sent), {"fields": sorted(map(list, sent))})
    rb = fx.fn("aquatic_http::workers::socket::connection::Connection::run::{closure#0}")
    pa = set()
    for line, callee, args in call_args(fx, rb, r"Connection.*::handle_request$"):
        pa.add(show(args[2]))
    okpa = len(pa) == 1 and re.fullmatch(r"Option::ok_or\(Option::or\(opt_stable_peer_addr, Connection::read_request\(self\)\.await\?\.1\), .*\)\?", list(pa)[0]) is not None
    yield ob("R-C03-2", "chain#http#run_peer_addr", okpa, rb, None, "handle_request(.., %s)" % [x[:120] for x in pa], {"arg": [x[:200] for x in pa]})
    b2, r = roots_shown(fx, "aquatic_http::workers::socket::connection::Connection::run", "opt_stable_peer_addr")
    yield ob("R-C03-2", "chain#http#stable_peer_addr", set(r) <= {"Option::None{}", "Option::Some{0: CanonicalSocketAddr::new(Result::map_err(TcpStream::peer_addr(stream), closure<workers::socket::connection::run_connection::{closure#0}::{closure#0}>())?)}"} and len(r) >= 1 and any("peer_addr(stream)" in x for x in r),
             b2, None, "opt_stable_peer_addr <- %s" % [x[:150] for x in r], {"roots": [x[:200] for x in r]})
    rq = fx.fn("aquatic_http::workers::socket::connection::Connection::read_request::{closure#0}")
    news = set()
    for line, callee, args in call_args(fx, rq, re.escape(CSA) + r"::new$"):
        news.add(show(args[0]))
    okn = len(news) >= 1 and all(re.fullmatch(r"SocketAddr::new\(Option::expect\(\(parse_request\(self\.config, .*\) as Ok\)\.0\.1, '.*'\), self\.peer_port\)", x) is not None for x in news)
    yield ob("R-C03-2", "chain#http#proxy_addr", okn, rq, None, "behind a proxy: CanonicalSocketAddr::new(%s)" % [x[:60] + " … " + x[-40:] for x in news], {"arg": [x[-200:] for x in news]})
    # the switch between the two sources is exactly `runs_behind_reverse_proxy`
    def proxy_atoms(p):
        out = []
        for a in p.atoms:
            ab = sym.atom_bool(a)
            if ab and fp(strip_after(ab[0])).endswith("config.network.runs_behind_reverse_proxy"):
                out.append(ab[1])
            elif ab and "runs_behind_reverse_proxy" in show(ab[0]):
                out.append("complex:" + show(strip_after(ab[0]))[:80])
        return tuple(out)
    cb0 = fx.fn("aquatic_http::workers::socket::connection::run_connection::{closure#0}")
    tab = set()
    for p in cpaths(fx, cb0):
        for e in p.calls(r"Connection.*::run$"):
            v = show(strip_after(e[2][1]))
            tab.add((proxy_atoms(p), "None" if v == "Option::None{}" else ("Some(new(tcp peer))" if re.fullmatch(r"Option::Some\{0: CanonicalSocketAddr::new\(Result::map_err\(TcpStream::peer_addr\(stream\), .*\)\?\)\}", v) else v[:80])))
    yield ob("R-C03-2", "chain#http#proxy_switch#connection", tab == {((True,), "None"), ((False,), "Some(new(tcp peer))")}, cb0, None,
             "stable peer address by runs_behind_reverse_proxy: %s" % sorted(tab), {"table": sorted(map(str, tab))})
    tab = set()
    for p in cpaths(fx, rq):
        if p.end != "return":
            continue
        r0 = strip_after(p.ret)
        if not (r0[0] == "agg" and r0[2] == "Ok"):
            continue
        v = show(r0[3][0][1][1][1])
        tab.add((proxy_atoms(p), "None" if v == "Option::None{}" else ("Some(new(header ip, tcp port))" if v.startswith("Option::Some{0: CanonicalSocketAddr::new(SocketAddr::new(Option::expect((parse_request(") and v.endswith("self.peer_port))}") else v[:80])))
    yield ob("R-C03-2", "chain#http#proxy_switch#request", tab == {((True,), "Some(new(header ip, tcp port))"), ((False,), "None")}, rq, None,
             "per-request peer address by runs_behind_reverse_proxy: %s" % sorted(tab), {"table": sorted(map(str, tab))})
    pp = set()
    cb = fx.fn("aquatic_http::workers::socket::connection::run_connection::{closure#0}")
    for p in cpaths(fx, cb):
        for e in p.effects:
            if e[0] == "agg" and e[1].endswith("::Connection") and "peer_port" in dict(e[3]):
                pp.add(show(strip_after(dict(e[3])["peer_port"])))
    yield ob("R-C03-2", "chain#http#peer_port", bool(pp) and all(re.fullmatch(r"SocketAddr::port\(Result::map_err\(TcpStream::peer_addr\(stream\), .*\)\?\)", x) for x in pp), cb, None,
             "Connection.peer_port <- %s" % [x[:100] for x in pp], {"peer_port": [x[:160] for x in pp]})
    # parse_request: the ip handed back is parse_forwarded_header's Ok payload for the configured name/format
    pr = fx.fn("aquatic_http::workers::socket::request::parse_request")
    got = set()
    for p in ok_paths([q for q in cpaths(fx, pr) if q.end == "return"]):
        r0 = strip_after(p.ret)
        tup = r0[3][0][1]
        got.add(show(tup[1][1])[:260])
    want_re = r"Option::Some\{0: \(parse_forwarded_header\(config\.network\.reverse_proxy_ip_header_name, config\.network\.reverse_proxy_ip_header_format, .*\.headers\) as Ok\)\.0\}"
    yield ob("R-C03-2", "chain#http#parse_request", got and all(x == "Option::None{}" or re.fullmatch(want_re, x) for x in got) and len(got) == 2, pr, None,
             "peer ip returned by parse_request: %s" % sorted(x[:150] for x in got), {"values": sorted(x[:200] for x in got)})
    # WS
    wb = fx.fn("aquatic_ws::workers::socket::run_socket_worker::{closure#0}")
    ipv = set()
    for body in [wb] + [c for c in fx.bodies.values() if c.name.startswith(wb.name + "::{closure") and c.unit == wb.unit]:
        for line, callee, args in call_args(fx, body, r"IpVersion::canonical_from_ip$"):
            ipv.add(show(args[0]))
    okw = len(ipv) >= 1 and all(re.fullmatch(r"SocketAddr::ip\(\(TcpStream::peer_addr\(.*\) as Ok\)\.0\)", x) is not None for x in ipv)
    ipv = set(x[:80] + " … " + x[-30:] for x in ipv)
    yield ob("R-C03-2", "chain#ws#ip_version", okw, wb, None, "canonical_from_ip(%s)" % sorted(ipv), {"arg": sorted(ipv)})
    who = sorted(set(bb.short for bb, i, s in who_constructs(fx, r"aquatic_ws::common::IpVersion$", crates=["aquatic_ws"]) if not in_test_code(bb) and "derive" not in bb.short and not bb.short.startswith("<")))
    yield ob("R-C03-2", "chain#ws#who_classifies", set(who) <= {"aquatic_ws::common::IpVersion::canonical_from_ip", "aquatic_ws::workers::swarm::storage::TorrentMaps::new"}, None, None,
             "IpVersion values are produced in %s" % who, {"who": who})


@PROP.rule("R-C03-3", floor=2, doc="CanonicalSocketAddr is only ever built by its canonicalising constructor")
def ctor(fx):
    who = sorted(set(bb.short for bb, i, s in who_constructs(fx, r"^aquatic_common::CanonicalSocketAddr$")))
    yield ob("R-C03-3", "ctor#who_constructs", who == [CSA + "::new"], None, None, "CanonicalSocketAddr literals in: %s" % who, {"who": who})
    a = fx.adt(CSA)
    vis = [f["vis"] for f in a["variants"][0]["fields"]]
    yield ob("R-C03-3", "ctor#field_private", len(vis) == 1 and vis[0] != "pub", None, None, "field visibility %s" % vis, {"vis": vis})
    n = len([1 for bb, i, t in who_calls(fx, re.escape(CSA) + r"::new$") if not in_test_code(bb)])
    yield ob("R-C03-3", "ctor#call_sites", n >= 5, None, None, "%d CanonicalSocketAddr::new call sites" % n, {"sites": n}, trivial=True)


def mapped_pattern(fx, b, octets_prefix):
    """From the decision chain over octets()[i] extract {index: required value} for the mapped (V4) outcome and the outcomes."""
    outs = {}
    for p in paths(fx, b):
        if p.end != "return":
            continue
        tests = {}
        fam = None
        for a in p.atoms:
            v = sym.atom_variant(fx, a)
            if v and v[2]:
                fam = v[1][0]
                continue
            d = strip_after(a["discr"])
            if d[0] == "idx" and show(d[1]) == octets_prefix and a["label"][0] == "sw":
                tests[d[2][1]] = a["label"][1]
            elif d[0] == "idx" and show(d[1]) == octets_prefix:
                tests[d[2][1]] = ("not", a["label"][1])
        outs.setdefault(show(strip_after(p.ret)), []).append((fam, tests))
    return outs


MAPPED = {i: 0 for i in range(10)}
MAPPED.update({10: 255, 11: 255})


def std_mapped_idiom(fx, b, ip_expr, v4_of, keep6, keep4):
    """The same decision written with std's Ipv6Addr::to_ipv4_mapped (exactly the ::ffff:a.b.c.d test, unlike to_ipv4):
    V4 -> keep4; V6 and Some(ip) -> v4_of(ip); V6 and None -> keep6.  Returns (applies, ok)."""
    call = "Ipv6Addr::to_ipv4_mapped(%s)" % ip_expr
    ps = [p for p in paths(fx, b) if p.end == "return"]
    if not any(p.calls(r"Ipv6Addr::to_ipv4_mapped$") for p in ps):
        return False, False
    seen = set()
    for p in ps:
        fam = None
        opt = None
        for a in p.atoms:
            ab = sym.atom_bool(a)
            if ab and show(strip_after(ab[0])) in ("Option::is_some(%s)" % call, "Option::is_none(%s)" % call):
                opt = "Some" if ab[1] == ("is_some" in show(strip_after(ab[0]))) else "None"
                continue
            v = sym.atom_variant(fx, a)
            if not (v and v[2]):
                continue
            d = show(strip_after(v[0]))
            if d == call:
                opt = v[1][0]
            elif v[1][0] in ("V4", "V6"):
                fam = v[1][0]
        r = show(strip_after(p.ret))
        want = keep4 if fam == "V4" else v4_of("(%s as Some).0" % call) if (fam, opt) == ("V6", "Some") else keep6 if (fam, opt) == ("V6", "None") else None
        if r != want:
            return True, False
        seen.add((fam, opt))
    return True, seen == {("V4", None), ("V6", "Some"), ("V6", "None")}


@PROP.rule("R-C03-4", floor=4, doc="decision tables: CanonicalSocketAddr::new and IpVersion::canonical_from_ip use exactly the ::ffff:a.b.c.d pattern")
def canonical(fx):
    b = fx.fn(CSA + "::new")
    outs = mapped_pattern(fx, b, "Ipv6Addr::octets(SocketAddrV6::ip((addr as V6).0))")
    oct_ = "Ipv6Addr::octets(SocketAddrV6::ip((addr as V6).0))"
    v4 = "CanonicalSocketAddr::CanonicalSocketAddr{0: SocketAddr::V4{0: SocketAddrV4::new(Ipv4Addr::new(%s[12], %s[13], %s[14], %s[15]), SocketAddrV6::port((addr as V6).0))}}" % ((oct_,) * 4)
    keep6 = "CanonicalSocketAddr::CanonicalSocketAddr{0: <T as Into>::into((addr as V6).0)}"
    keep4 = "CanonicalSocketAddr::CanonicalSocketAddr{0: addr}"
    alt, alt_ok = std_mapped_idiom(
        fx, b, "SocketAddrV6::ip((addr as V6).0)",
        lambda ip: "CanonicalSocketAddr::CanonicalSocketAddr{0: SocketAddr::V4{0: SocketAddrV4::new(%s, SocketAddrV6::port((addr as V6).0))}}" % ip, keep6, keep4)
    if alt:
        yield ob("R-C03-4", "table#CanonicalSocketAddr::new", alt_ok, b, None,
                 "written with Ipv6Addr::to_ipv4_mapped (std's ::ffff:a.b.c.d test): V4 kept, mapped V6 -> V4 with the same port, other V6 kept: %s" % alt_ok, {"idiom": "to_ipv4_mapped"})
        outs = None
    okm = outs is not None and set(outs) == {v4, keep6, keep4}
    okm = okm and outs.get(v4) == [("V6", MAPPED)] and outs.get(keep4) == [("V4", {})]
    # every other V6 path fails exactly one test of the pattern after passing the previous ones
    if okm:
        idx = sorted(MAPPED)
        seen = []
        for fam, tests in outs[keep6]:
            failing = [i for i, v in tests.items() if isinstance(v, tuple)]
            if fam != "V6" or len(failing) != 1:
                okm = False
                continue
            i = failing[0]
            if i not in MAPPED or tests[i] != ("not", (MAPPED[i],)) or any(tests.get(j) != MAPPED[j] for j in idx if j < i) or any(j > i for j in tests):
                okm = False
            seen.append(i)
        okm = okm and sorted(seen) == idx
    if outs is not None:
        yield ob("R-C03-4", "table#CanonicalSocketAddr::new", okm, b, None,
                 "outcomes: %s" % {k[:70]: (len(v), v[0][1] if len(v) == 1 else "...") for k, v in outs.items()},
                 {"mapped_pattern": outs.get(v4, [None])[0][1] if outs.get(v4) else None, "outcomes": sorted(k[:120] for k in outs)})
    b2 = fx.fn("aquatic_ws::common::IpVersion::canonical_from_ip")
    alt, alt_ok = std_mapped_idiom(fx, b2, "(ip as V6).0", lambda ip: "IpVersion::V4{}", "IpVersion::V6{}", "IpVersion::V4{}")
    if alt:
        yield ob("R-C03-4", "table#IpVersion::canonical_from_ip", alt_ok, b2, None, "written with Ipv6Addr::to_ipv4_mapped: %s" % alt_ok, {"idiom": "to_ipv4_mapped"})
    o2 = {} if alt else mapped_pattern(fx, b2, "Ipv6Addr::octets((ip as V6).0)")
    ok2 = set(o2) == {"IpVersion::V4{}", "IpVersion::V6{}"}
    if ok2:
        v4s = sorted(o2["IpVersion::V4{}"], key=lambda x: str(x))
        ok2 = v4s == [("V4", {}), ("V6", MAPPED)]
        seen = []
        for fam, tests in o2["IpVersion::V6{}"]:
            failing = [i for i, v in tests.items() if isinstance(v, tuple)]
            if fam != "V6" or len(failing) != 1 or failing[0] not in MAPPED or tests[failing[0]] != ("not", (MAPPED[failing[0]],)):
                ok2 = False
            else:
                seen.append(failing[0])
        ok2 = ok2 and sorted(seen) == sorted(MAPPED)
    if not alt:
        yield ob("R-C03-4", "table#IpVersion::canonical_from_ip", ok2, b2, None, "outcomes: %s" % {k: len(v) for k, v in o2.items()},
                 {"mapped_pattern": [t for f, t in o2.get("IpVersion::V4{}", []) if f == "V6"]})
    # accessors do not un-canonicalise
    g = fx.fn(CSA + "::get")
    rets = [show(p.ret) for p in paths(fx, g) if p.end == "return"]
    yield ob("R-C03-4", "table#get", rets == ["self.0"], g, None, "get() = %s" % rets, trivial=True)
    g = fx.fn(CSA + "::is_ipv4")
    rets = [show(p.ret) for p in paths(fx, g) if p.end == "return"]
    yield ob("R-C03-4", "table#is_ipv4", rets == ["SocketAddr::is_ipv4(self.0)"], g, None, "is_ipv4() = %s" % rets, trivial=True)


@PROP.rule("R-C03-5", floor=3, doc="reverse proxy: last address of the last occurrence of the configured header")
def forwarded(fx):
    b = fx.fn("aquatic_http::workers::socket::request::parse_forwarded_header")
    ps = [p for p in cpaths(fx, b) if p.end == "return"]
    it = set()
    eqs = set()
    oks = set()
    for p in ps:
        for e in p.calls(r"IntoIterator>::into_iter$"):
            it.add(show(strip_after(e[2][0])))
        for a in p.atoms:
            ab = sym.atom_bool(a)
            if ab and ab[0][0] == "call" and "PartialEq" in ab[0][1]:
                x = strip_after(ab[0])
                eqs.add(re.sub(r"\(<Rev as Iterator>::next\(.*?\) as Some\)\.0", "HDR", show(x)))
        r = strip_after(p.ret)
        if r[0] == "call" and r[1].endswith("with_context"):
            oks.add(re.sub(r"\(<Rev as Iterator>::next\(.*?\) as Some\)\.0", "HDR", show(r[2][0])))
    yield ob("R-C03-5", "forwarded#last_occurrence", it == {"Iterator::rev(<impl [T]>::iter(headers))"}, b, None, "headers iterated as %s" % sorted(it), {"iter": sorted(it)})
    yield ob("R-C03-5", "forwarded#name_match", eqs == {"<impl PartialEq for &A>::eq(HDR.name, header_name)"}, b, None, "header selected by %s" % sorted(eqs), {"eq": sorted(eqs)})
    want = "<impl str>::parse(<impl str>::trim(Option::ok_or(Iterator::last(<impl str>::split(from_utf8(HDR.value)?, 44:char)), must_use(format_err(Arguments::from_str('no header value'))))?))"
    t = [p.call_term(e[3]) for p in ps for e in p.calls(r"str>::parse$")]
    okt = bool(t) and all(x["f"]["args"] == ["std::net::IpAddr"] for x in t)
    yield ob("R-C03-5", "forwarded#last_address", oks == {want} and okt, b, None, "address = %s parsed as %s" % (sorted(oks), t[0]["f"]["args"] if t else None), {"value": sorted(oks)})


@PROP.rule("R-C03-6", floor=4, doc="address family of the stored peer and of the reply is selected by the canonical address")
def family(fx):
    b = fx.fn("aquatic_udp::swarm::TorrentMaps::announce")
    rows = set()
    for p in cpaths(fx, b):
        if p.end != "return":
            continue
        v = [sym.atom_variant(fx, a) for a in p.atoms]
        v = [(show(strip_after(x[0])), x[1][0]) for x in v if x and x[2]]
        r = strip_after(p.ret)
        rows.add((tuple(v), r[2] if r[0] == "agg" else "?", fp(r[3][0][1][2][0]) if r[0] == "agg" and r[3][0][1][0] == "call" else "?"))
    want = {((("SocketAddr::ip(CanonicalSocketAddr::get(src))", "V4"),), "AnnounceIpv4", "self.ipv4"),
            ((("SocketAddr::ip(CanonicalSocketAddr::get(src))", "V6"),), "AnnounceIpv6", "self.ipv6")}
    yield ob("R-C03-6", "family#udp#announce", rows == want, b, None, "family selection %s" % sorted(rows), {"rows": sorted(map(str, rows))})
    b = fx.fn("aquatic_udp::swarm::TorrentMaps::scrape")
    rows = set()
    for p in cpaths(fx, b):
        if p.end != "return":
            continue
        # the decision may be spelled `src.is_ipv4()` or `match src.get().ip() { V4 / V6 }`: both read the canonical address
        fam = []
        other = []
        for a in p.atoms:
            ab = sym.atom_bool(a)
            v = sym.atom_variant(fx, a)
            if ab and show(strip_after(ab[0])) == "CanonicalSocketAddr::is_ipv4(src)":
                fam.append("V4" if ab[1] else "V6")
            elif v and v[2] and show(strip_after(v[0])) == "SocketAddr::ip(CanonicalSocketAddr::get(src))" and v[1] in (["V4"], ["V6"]):
                fam.append(v[1][0])
            elif ab or v:
                other.append(sym.atom_text(fx, a)[:50])
        r = strip_after(p.ret)
        rows.add((tuple(fam), tuple(other), fp(r[2][0]) if r[0] == "call" else "?"))
    want = {(("V4",), (), "self.ipv4"), (("V6",), (), "self.ipv6")}
    yield ob("R-C03-6", "family#udp#scrape", rows == want, b, None, "family selection %s" % sorted(rows), {"rows": sorted(map(str, rows))})
    b = fx.fn("aquatic_http::workers::swarm::storage::TorrentMaps::handle_announce_request")
    rows = set()
    for p in cpaths(fx, b):
        if p.end != "return":
            continue
        v = [sym.atom_variant(fx, a) for a in p.atoms]
        v = [(show(strip_after(x[0])), x[1][0]) for x in v if x and x[2]]
        c = p.calls(r"TorrentMap.*::upsert_peer_and_get_response_peers$")
        r = strip_after(p.ret)
        filled = [n for n, val in r[3] if n in ("peers", "peers6") and "upsert_peer" in show(val)] if r[0] == "agg" else []
        rows.add((tuple(v), fp(strip_after(c[0][2][0])) if c else "?", tuple(filled)))
    want = {((("SocketAddr::ip(CanonicalSocketAddr::get(peer_addr))", "V4"),), "self.ipv4", ("peers",)),
            ((("SocketAddr::ip(CanonicalSocketAddr::get(peer_addr))", "V6"),), "self.ipv6", ("peers6",))}
    yield ob("R-C03-6", "family#http#announce", rows == want, b, None, "family selection %s" % sorted(rows), {"rows": sorted(map(str, rows))})
    b = fx.fn("aquatic_ws::workers::swarm::storage::TorrentMaps::get_torrent_map_by_ip_version")
    rows = set()
    for p in cpaths(fx, b):
        if p.end != "return":
            continue
        v = [sym.atom_variant(fx, a) for a in p.atoms]
        v = [(show(strip_after(x[0])), x[1][0]) for x in v if x and x[2]]
        rows.add((tuple(v), fp(strip_after(p.ret))))
    want = {((("ip_version", "V4"),), "self.ipv4"), ((("ip_version", "V6"),), "self.ipv6")}
    yield ob("R-C03-6", "family#ws#map", rows == want, b, None, "family selection %s" % sorted(rows), {"rows": sorted(map(str, rows))})


@PROP.rule("R-C03-7", floor=4, doc="the hop from the canonical source address to the wire image handed to other peers keeps the octets in network order (udp)")
def wire_image(fx):
    # R-C03-2 treats `ip.into()` (std address -> Ipv{4,6}AddrBytes) as a transparent hop of the provenance chain; that is only
    # right if the conversion is the identity on the octets. Same obligations as C13's address images.
    from rules import C13
    n = 0
    for o in C13.address_images(fx):
        n += 1
        o2 = ob("R-C03-7", "wire_image#" + o.key, o.ok, None, None, o.detail, o.sample, o.trivial)
        o2.where = o.where
        yield o2
    if n == 0:
        yield ob("R-C03-7", "wire_image#anchors", False, None, None, "address image conversions not found")
