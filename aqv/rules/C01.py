"""C01 - UDP swarm bookkeeping equals a reference tracker (necessary local conditions)."""
from aq.core import Property
from rules import swarm_common as S

PROP = Property(
    "C01", "other",
    "Equivalence with a reference tracker over all histories is not statically decidable; decided are the local "
    "facts every such equivalence needs, on every enumerated path of the storage code: the status table, "
    "remove-before-count-before-insert with one map key (source ip, announced port), stopped never inserts and "
    "everything else inserts exactly once with is_seeder = (status == Seeding), coherence of the cached seeder "
    "counter (closed set of writers, +1/-1 exactly with the affected peer's flag), lossless representation "
    "switches at the ArrayVec capacity, and identical counter accessors for announce and scrape.",
    ["aqfacts MIR extraction", "indexmap / arrayvec semantics"],
    ["composition of the local facts into history equivalence (IndexMap/ArrayVec semantics, arithmetic of counts) is not decided"],
)


@PROP.rule("R-C01-1", floor=1, doc="status table")
def r1(fx):
    return S.status_table(fx, "R-C01-1", "udp")


@PROP.rule("R-C01-2", floor=7, doc="announce: remove < count/extract < insert, key, reply origin, insert by status, grow when full")
def r2(fx):
    return S.announce_rules(fx, "R-C01-2", "udp")


@PROP.rule("R-C01-4", floor=7, doc="seeder counter coherence and closed set of mutators")
def r4(fx):
    return S.counter_rules(fx, "R-C01-4", "udp")


@PROP.rule("R-C01-5", floor=4, doc="representation switch keeps every entry")
def r5(fx):
    return S.switch_rules(fx, "R-C01-5", "udp")


@PROP.rule("R-C01-6", floor=1, doc="scrape uses the same accessors as announce")
def r6(fx):
    return S.accessor_sibling_rules(fx, "R-C01-6", "udp")
