"""C01 - UDP swarm bookkeeping equals a reference tracker (necessary local conditions)."""
from aq.core import Property
from rules import swarm_common as S

PROP = Property(
    "C01", "other",
    "Equivalence with a reference tracker over all histories is not statically decidable; decided are the local "
    "facts every such equivalence needs, on every enumerated path of the storage code: the status table, "
    "remove-before-count-before-insert with one map key (source ip, announced port), stopped never inserts and "
    "everything else inserts exactly once with is_seeder = (status == Seeding), coherence of the cached seeder "
    "counter (closed set of writers, +1/-1 exactly with the affected peer's flag), lossless representation "
    "switches at the ArrayVec capacity, and identical counter accessors for announce and scrape.",
    ["aqfacts MIR extraction", "indexmap / arrayvec semantics"],
    ["composition of the local facts into history equivalence (IndexMap/ArrayVec semantics, arithmetic of counts) is not decided"],
)


@PROP.rule("R-C01-1", floor=1, doc="status table")
def r1(fx):
    return S.status_table(fx, "R-C01-1", "udp")


@PROP.rule("R-C01-2", floor=7, doc="announce: remove < count/extract < insert, key, reply origin, insert by status, grow when full")
def r2(fx):
    return S.announce_rules(fx, "R-C01-2", "udp")


@PROP.rule("R-C01-4", floor=7, doc="seeder counter coherence and closed set of mutators")
def r4(fx):
    return S.counter_rules(fx, "R-C01-4", "udp")


@PROP.rule("R-C01-5", floor=4, doc="representation switch keeps every entry")
def r5(fx):
    return S.switch_rules(fx, "R-C01-5", "udp")


@PROP.rule("R-C01-6", floor=1, doc="scrape uses the same accessors as announce")
def r6(fx):
    return S.accessor_sibling_rules(fx, "R-C01-6", "udp")


@PROP.rule("R-C01-7", floor=2, doc="a torrent whose peers have all stopped or expired is forgotten by the cleaning pass: every shard is pruned, and the "
                                   "pruning closure drops a permitted torrent that is empty and not referenced by an announce in flight")
def r7(fx):
    import re
    from aq import sym
    from aq.sym import show, strip_after
    from aq.util import call_args, ob
    parent = fx.fn("aquatic_udp::swarm::TorrentMapShards::clean_and_get_statistics")
    clo = None
    for line, callee, args in call_args(fx, parent, r"HashMap.*::retain$"):
        for a in args:
            if a[0] == "clo":
                clo = fx.bodies.get(a[1])
    sites = [i for i, t in parent.calls(r"HashMap.*::retain$")]
    if clo is None or len(sites) != 1:
        yield ob("R-C01-7", "forget#udp#retain_site", False, parent, None, "expected exactly one torrent-level retain call with a closure, found %d" % len(sites))
        return
    # (1) every iteration of the loop that prunes shards reaches the retain call: no way round it back to the loop header
    cfg = parent.cfg
    r = sites[0]
    loops = [(x, h) for (x, h) in cfg.back_edges() if cfg.block_dominates(h, r) and (r == x or cfg.can_reach(r, x, avoid_blocks=[h]))]
    headers = {h for _, h in loops}
    skipping = sorted((x, h) for (x, h) in cfg.back_edges() if h in headers and x != r and h != r and x in cfg.reach_from(h, avoid_blocks=[r]))
    yield ob("R-C01-7", "forget#udp#every_shard_pruned", len(loops) >= 1 and not skipping, parent, parent.blocks[r]["term"].get("line"),
             "the torrent-level retain (bb%d) lies in %d loop(s) over the shards; loop iterations that can return to the loop header without "
             "reaching it (a shard whose stopped-out torrents would never be forgotten): %s" % (r, len(loops), skipping), {"loops": len(loops), "skipping": [list(s) for s in skipping]})
    # (2) the closure drops a permitted, empty, unreferenced torrent on every path
    n = 0
    kept = []
    for p in sym.Evaluator(fx, clo).run():
        if p.end != "return" or p.ret is None:
            continue
        allows_false = any((sym.atom_bool(a) or (None, None))[1] is False and "AccessList::allows" in show(a["discr"]) for a in p.atoms)
        if allows_false:
            continue
        sole = False
        for a in p.atoms:
            v = sym.atom_variant(fx, a)
            if v and v[2] and v[1] == ["Some"] and re.match(r"Arc::get_mut\(peer_map\)$", show(strip_after(v[0]))):
                sole = True
            ab = sym.atom_bool(a)
            if ab and ab[1] and re.match(r"Eq\(Arc::strong_count\(peer_map\), 1:usize\)$", show(strip_after(ab[0]))):
                sole = True
        empty = any((sym.atom_bool(a) or (None, None))[1] is True and "PeerMap::is_empty" in show(a["discr"]) for a in p.atoms)
        if sole and empty:
            n += 1
            rv = strip_after(p.ret)
            if not (rv[0] == "c" and rv[3] == 0):
                kept.append(show(rv)[:60])
    yield ob("R-C01-7", "forget#udp#empty_torrent_dropped", n >= 1 and not kept, clo, None,
             "%d path(s) of the pruning closure see a permitted torrent that is empty and solely owned; paths keeping it: %s" % (n, kept), {"paths": n})
