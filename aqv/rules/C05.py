"""C05 - UDP connection ids are bound to source IP and time window."""
import re

from aq import sym
from aq.core import Property
from aq.sym import show, strip_after
from aq.util import (calls_in, const_int, cpaths, fp, has_call, in_test_code, ob, ok_paths, paths, true_sets,
                     unwrap_origin, who_calls, who_constructs)

PROP = Property(
    "C05", "proof",
    "The validator's complete decision table (two paths), the construction of ids, the MAC input and the key "
    "provenance are extracted as normalised expression trees and compared with the inequalities of the "
    "statement: accept iff MAC(issue time, source ip) matches in constant time AND issue + max_age > now AND "
    "issue <= now + 60, all additions in u64 after widening.",
    ["aqfacts MIR extraction", "BLAKE3 keyed-hash security (2^-32 bound is the statement's own caveat)",
     "constant_time_eq", "getrandom"],
    ["wall-clock cadence of update_elapsed (poll loop) is not decided statically"],
)
V = "aquatic_udp::workers::socket::validator::ConnectionValidator"
ISSUE = "<impl u32>::from_ne_bytes(Result::unwrap(<T as TryInto>::try_into(<impl [T]>::split_at(<impl i64>::to_ne_bytes(I64::get(connection_id.0)), 4:usize).0)))"
REF_TRUE = frozenset([
    "Gt(Add(<impl From for u64>::from(%s), self.max_connection_age), (self.seconds_since_start as u64))" % ISSUE,
    "Le(<impl From for u64>::from(%s), Add((self.seconds_since_start as u64), 60:u64))" % ISSUE,
    "constant_time_eq(<impl [T]>::split_at(<impl i64>::to_ne_bytes(I64::get(connection_id.0)), 4:usize).1, "
    "ConnectionValidator::hash(self, Result::unwrap(<T as TryInto>::try_into(<impl [T]>::split_at(<impl i64>::to_ne_bytes(I64::get(connection_id.0)), 4:usize).0)), "
    "SocketAddr::ip(CanonicalSocketAddr::get(source_addr))))",
])


@PROP.rule("R-C05-1", floor=3, doc="decision table of connection_id_valid")
def table(fx):
    b = fx.fn(V + "::connection_id_valid")
    ps = paths(fx, b)
    ts = true_sets(fx, ps)
    yield ob("R-C05-1", "valid#table", ts == {REF_TRUE}, b, None,
             "accepts iff %s" % [sorted(t) for t in ts], {"true_sets": [sorted(t) for t in ts]})
    # every addition is performed in u64, and both time values are widened before the addition
    adds, widen = set(), set()
    ret_paths = [p for p in ps if p.end == "return"]
    for p in ret_paths:
        exprs = [strip_after(p.ret)] + [strip_after(a["discr"]) for a in p.atoms]
        for ex in exprs:
            for x in sym.walk(ex):
                if x[0] == "bin" and x[1] in ("Add", "Sub", "Mul"):
                    adds.add((x[1], x[4], show(x)))
                if x[0] == "cast":
                    widen.add((x[4], x[2], x[1]))
        for e in p.calls(r"From.*::from$"):
            t = p.call_term(e[3])
            widen.add((t["op_tys"][0], b.local_ty(t["dest"]["l"]), "From"))
    oka = len(adds) == 2 and all(a[:2] == ("Add", "u64") for a in adds)
    yield ob("R-C05-1", "valid#u64_arithmetic", oka, b, None, "arithmetic nodes %s (must be two u64 additions)" % sorted(adds), {"ops": sorted(adds)})
    okw = sorted(widen) == [("u32", "u64", "From"), ("u32", "u64", "IntToInt")]
    yield ob("R-C05-1", "valid#widening", okw, b, None, "conversions %s (both u32 -> u64 before adding)" % sorted(widen), {"casts": sorted(widen)})
    # the MAC bytes are compared with constant_time_eq only: no PartialEq on byte slices/arrays in the validator
    eqs = []
    for fn in (V + "::connection_id_valid",):
        for i, t in fx.fn(fn).calls(r"PartialEq.*::(eq|ne)$"):
            eqs.append(t["line"])
    yield ob("R-C05-1", "valid#no_plain_eq", not eqs, b, None, "PartialEq calls in the validator: %s" % eqs, trivial=True)


@PROP.rule("R-C05-2", floor=4, doc="create_connection_id = [issue time | MAC(issue time, canonical source ip)], sibling of the validator")
def create(fx):
    b = fx.fn(V + "::create_connection_id")
    ps = [p for p in paths(fx, b) if p.end == "return"]
    ok1 = len(ps) == 1
    d = {}
    if ok1:
        p = ps[0]
        copies = p.calls(r"copy_from_slice$")
        parts = []
        for e in copies:
            dst, src = strip_after(e[2][0]), strip_after(e[2][1])
            rng = [x for x in sym.walk(dst) if x[0] == "agg" and "Range" in x[1]]
            r = (rng[0][2], {k: const_int(v) for k, v in rng[0][3]}) if rng else None
            parts.append((r, show(src)))
        d["parts"] = parts
        want = [(("RangeTo", {"end": 4}), "<impl u32>::to_ne_bytes(self.seconds_since_start)"),
                (("RangeFrom", {"start": 4}), "ConnectionValidator::hash(self, <impl u32>::to_ne_bytes(self.seconds_since_start), SocketAddr::ip(CanonicalSocketAddr::get(source_addr)))")]
        ok1 = parts == want
        r = strip_after(p.ret)
        okr = r[0] == "call" and r[1].endswith("ConnectionId::new") and r[2][0][0] == "call" and r[2][0][1].endswith("i64>::from_ne_bytes") \
            and r[2][0][2][0][0] == "repeat"
        d["ret"] = show(r)
        ok1 = ok1 and okr
    yield ob("R-C05-2", "create#layout", ok1, b, None, "id bytes: %s" % d, d)
    # sibling agreement with the validator: same hash fn, same split (4), same address accessor (ip only, never the port)
    vb = fx.fn(V + "::connection_id_valid")
    vh = [show(strip_after(e[2][2])) for p in paths(fx, vb) for e in p.calls(r"ConnectionValidator::hash$")]
    ch = [show(strip_after(e[2][2])) for p in ps for e in p.calls(r"ConnectionValidator::hash$")]
    yield ob("R-C05-2", "create#same_address_accessor", bool(vh) and set(vh) == set(ch) == {"SocketAddr::ip(CanonicalSocketAddr::get(source_addr))"}, b, None,
             "hash address argument: create %s, validate %s" % (sorted(set(ch)), sorted(set(vh))), {"create": sorted(set(ch)), "validate": sorted(set(vh))})
    port = [t["line"] for fn in ("::create_connection_id", "::connection_id_valid", "::hash") for i, t in fx.fn(V + fn).calls(r"SocketAddr::port$|SocketAddr::set_port$")]
    yield ob("R-C05-2", "create#port_unused", not port, b, None, "port accessors in validator functions: %s" % port, trivial=True)
    sp = [const_int(e[2][1]) for p in paths(fx, vb) for e in p.calls(r"split_at$")]
    yield ob("R-C05-2", "create#split_index", set(sp) == {4}, vb, None, "validator splits at %s" % sorted(set(sp)), trivial=True)


@PROP.rule("R-C05-3", floor=3, doc="MAC input = issue time then ip octets, 4 output bytes, hasher reset afterwards")
def mac(fx):
    b = fx.fn(V + "::hash")
    ps = [p for p in paths(fx, b) if p.end == "return"]
    fams = set()
    for p in ps:
        seq = [(e[1].split("::")[-1], [show(strip_after(a)) for a in e[2][1:]]) for e in p.calls(r"blake3::.*(Hasher::update|Hasher::finalize_xof|OutputReader::fill|Hasher::reset)$")]
        fam = [sym.atom_variant(fx, a) for a in p.atoms]
        fam = [f[1][0] for f in fam if f and fp(f[0]) == "ip_addr"]
        key = fam[0] if fam else "?"
        fams.add(key)
        oct_fn = "Ipv4Addr::octets((ip_addr as V4).0)" if key == "V4" else "Ipv6Addr::octets((ip_addr as V6).0)"
        want = [("update", ["elapsed"]), ("update", [oct_fn]), ("finalize_xof", []), ("fill", ["[0:u8; 4]"]), ("reset", [])]
        okp = seq == want and show(strip_after(p.ret)) == "[0:u8; 4]"
        # all updates go to the keyed hasher field
        recv = set(fp(strip_after(e[2][0])) for e in p.calls(r"Hasher::(update|finalize_xof|reset)$"))
        okp = okp and recv == {"self.keyed_hasher"}
        yield ob("R-C05-3", "mac#%s" % key, okp, b, None, "hash steps %s on %s" % (seq, sorted(recv)), {"steps": seq})
    yield ob("R-C05-3", "mac#families", fams == {"V4", "V6"}, b, None, "address families hashed: %s" % sorted(fams), trivial=True)


@PROP.rule("R-C05-4", floor=5, doc="key = 32 bytes from getrandom (error propagated); one validator, cloned to the workers; max age from config")
def key(fx):
    b = fx.fn(V + "::new")
    ps = paths(fx, b)
    good = ok_paths(ps)
    okk = len(good) == 1
    d = {}
    if okk:
        p = good[0]
        agg = [x for x in sym.walk(p.ret) if x[0] == "agg" and x[1].endswith("ConnectionValidator")]
        okk = len(agg) == 1
        if okk:
            f = dict(agg[0][3])
            kh = f["keyed_hasher"]
            d["keyed_hasher"] = show(kh)
            okk = kh[0] == "call" and kh[1].endswith("Hasher::new_keyed") and kh[2][0][0] == "after" and kh[2][0][1].endswith("getrandom::fill") \
                and kh[2][0][3][0] == "repeat" and str(kh[2][0][3][2]) == "32"
            # fill's Result is `?`-propagated on this path
            tried = [a for a in p.atoms if a["discr"][0] == "discr" and a["discr"][1][0] == "try" and has_call(a["discr"][1], r"getrandom::fill$")]
            okk = okk and len(tried) == 1 and tried[0]["label"] == ("sw", 0)
            ma = strip_after(f["max_connection_age"])
            d["max_connection_age"] = show(ma)
            okk = okk and fp(unwrap_origin(ma)) == "config.cleaning.max_connection_age"
            d["seconds_since_start"] = show(f["seconds_since_start"])
    yield ob("R-C05-4", "key#provenance", okk, b, None, "%s" % d, d)
    cons = [bb.short for bb, i, s in who_constructs(fx, r"validator::ConnectionValidator$") if not in_test_code(bb)]
    allowed = {V + "::new", "<%s as std::clone::Clone>::clone" % V}
    yield ob("R-C05-4", "key#who_constructs", set(cons) <= allowed and V + "::new" in cons, None, None, "ConnectionValidator literals in: %s" % cons, {"sites": cons})
    callers = [(bb.short, t["line"]) for bb, i, t in who_calls(fx, re.escape(V) + r"::new$") if not in_test_code(bb)]
    yield ob("R-C05-4", "key#single_instance", [c[0] for c in callers] == ["aquatic_udp::run"], None, None,
             "ConnectionValidator::new called from %s (one key per process, cloned into every socket worker)" % callers, {"callers": [c[0] for c in callers]})
    wr = []
    for bb in fx.fns(r"^aquatic_udp::", crates=["aquatic_udp"]):
        if in_test_code(bb):
            continue
        for i, si, s in bb.assigns():
            pj = s["lhs"].get("p") or []
            if pj and pj[-1][0] == "f" and pj[-1][2] in ("keyed_hasher", "max_connection_age", "start_time"):
                wr.append((bb.short, pj[-1][2]))
    yield ob("R-C05-4", "key#fields_never_reassigned", not wr, None, None, "writes to key/max-age/start fields: %s" % wr, trivial=True)
    # the config field is a u32 so `.into()` widens to u64
    cfg = fx.adt("aquatic_udp::config::CleaningConfig")
    ty = [f["ty"] for f in cfg["variants"][0]["fields"] if f["name"] == "max_connection_age"]
    yield ob("R-C05-4", "key#max_age_type", ty == ["u32"], None, None, "config.cleaning.max_connection_age: %s" % ty, trivial=True)


@PROP.rule("R-C05-5", floor=4, doc="the validator clock: only update_elapsed writes it, with whole seconds since start; both backends call it in their loop")
def clock(fx):
    b = fx.fn(V + "::update_elapsed")
    ws = set()
    for p in paths(fx, b):
        for e in p.effects:
            if e[0] == "write":
                ws.add((fp(e[1]), show(strip_after(e[2]))))
    want = {("self.seconds_since_start", "(Duration::as_secs((Instant::checked_duration_since(Instant::now(), self.start_time) as Some).0) as u32)")}
    yield ob("R-C05-5", "clock#update", ws == want, b, None, "writes %s" % sorted(ws), {"writes": sorted(ws)})
    wr = []
    for bb in fx.fns(r"^aquatic_udp::", crates=["aquatic_udp"]):
        if in_test_code(bb):
            continue
        for i, si, s in bb.assigns():
            pj = s["lhs"].get("p") or []
            if pj and pj[-1][0] == "f" and pj[-1][2] == "seconds_since_start":
                wr.append(bb.short)
    yield ob("R-C05-5", "clock#who_writes", sorted(set(wr)) == [V + "::update_elapsed"], None, None, "seconds_since_start written in %s" % sorted(set(wr)), {"writers": sorted(set(wr))})
    for backend, fn in (("mio", "aquatic_udp::workers::socket::mio::run"), ("uring", "aquatic_udp::workers::socket::uring::SocketWorker::handle_cqe")):
        bb = fx.fn(fn)
        sites = [t["line"] for i, t in bb.calls(re.escape(V) + r"::update_elapsed$")]
        inloop = False
        if backend == "mio":
            loops = bb.cfg.back_edges()
            heads = set(h for _, h in loops)
            for i, t in bb.calls(re.escape(V) + r"::update_elapsed$"):
                inloop = inloop or any(bb.cfg.can_reach(i, h) and bb.cfg.can_reach(h, i) for h in heads)
        else:
            # handle_cqe is invoked per completion from the worker loop
            callers = [c.short for c, i, t in who_calls(fx, r"uring::SocketWorker::handle_cqe$")]
            inloop = callers == ["aquatic_udp::workers::socket::uring::SocketWorker::run_inner"]
        yield ob("R-C05-5", "clock#refresh#%s" % backend, len(sites) >= 1 and inloop, bb, sites[0] if sites else None,
                 "update_elapsed call sites %s, inside the worker loop: %s" % (sites, inloop), {"sites": len(sites)})
