"""C06 - UDP request/reply contract: one reply, to the sender, no amplification (both backends)."""
import re

from aq import sym
from aq.core import Property
from aq.sym import show, strip_after
from aq.util import (call_args, calls_in, const_int, cpaths, field_uses, fp, has_call, in_test_code, ob, ok_paths, paths,
                     unit_layout, unwrap_origin, who_calls, who_constructs)

PROP = Property(
    "C06", "other",
    "Necessary conditions of the request/reply contract decided on every enumerated path of both socket "
    "back ends: non-connect replies and swarm calls only on the true edge of connection_id_valid(source, the "
    "request's id); per received datagram at most one send, exactly one for connect / valid id, none for "
    "source port 0; reply transaction id, destination and kind originate from the request and its source; "
    "connect reply (16 bytes) is not larger than the smallest accepted connect request; the mio resend buffer only "
    "holds replies whose single send failed and retries each once with queueing off.",
    ["aqfacts MIR extraction", "kernel delivery of sendto/sendmsg", "C13 (codec) and C05 (validator)"],
    ["kernel behaviour (whether a failed send_to delivered anything) is not decided", "paths enumerated with the receive loop unrolled once (quick) or twice (thorough); feasibility not solved"],
)
MIO_H = "aquatic_udp::workers::socket::mio::WorkerSharedData::handle_request"
URING_H = "aquatic_udp::workers::socket::uring::SocketWorker::handle_request"
MIO_R = "aquatic_udp::workers::socket::mio::socket::Socket::read_and_handle_requests"
URING_R = "aquatic_udp::workers::socket::uring::SocketWorker::handle_recv_cqe"
VALID = "aquatic_udp::workers::socket::validator::ConnectionValidator::connection_id_valid"
GATED_VARIANTS = ("AnnounceIpv4", "AnnounceIpv6", "Scrape", "Error")


def bool_atoms(p, callee):
    out = []
    for a in p.atoms:
        ab = sym.atom_bool(a)
        if ab and ab[0][0] == "call" and ab[0][1] == callee:
            out.append((a["neff"], ab[1], strip_after(ab[0])))
    return out


def variant_atoms(fx, p):
    out = []
    for a in p.atoms:
        v = sym.atom_variant(fx, a)
        if v:
            out.append((a["neff"], strip_after(v[0]), v[1], v[2]))
    return out


def handler_table(fx, b, self_name="self"):
    """Per path of handle_request: (request variant, validator atoms, reply description)"""
    rows = []
    for p in cpaths(fx, b):
        if p.end != "return":
            continue
        va = [v for v in variant_atoms(fx, p) if fp(v[1]) == "request" and v[3]]
        variant = va[0][2][0] if va else "?"
        valid = bool_atoms(p, VALID)
        rows.append((p, variant, valid))
    return rows


@PROP.rule("R-C06-1", floor=7, doc="announce/scrape/error replies and swarm calls only under a valid connection id; connect is the only ungated reply")
def guard(fx):
    for backend, fn in (("mio", MIO_H), ("uring", URING_H)):
        b = fx.fn(fn)
        rows = handler_table(fx, b)
        n_sites = 0
        bad = []
        guards = set()
        for p, variant, valid in rows:
            for i, e in enumerate(p.effects):
                gated = (e[0] == "call" and re.search(r"swarm::TorrentMaps::(announce|scrape)$", e[1])) or \
                        (e[0] == "agg" and e[1].endswith("::Response") and e[2] in GATED_VARIANTS)
                if not gated:
                    continue
                n_sites += 1
                g = [v for v in valid if v[0] <= i and v[1] is True]
                want = "ConnectionValidator::connection_id_valid(self.validator, src, (request as %s).0.connection_id)" % variant
                if not g or show(g[-1][2]) != want:
                    bad.append("%s in %s arm @%s" % (e[1].split("::")[-1] if e[0] == "call" else "Response::" + e[2], variant, e[4]))
                else:
                    guards.add(want)
        yield ob("R-C06-1", "guard#%s#handle_request" % backend, n_sites >= 3 and not bad, b, None,
                 "%d gated sites; ungated: %s; guards: %s" % (n_sites, bad, sorted(guards)), {"sites": n_sites, "guards": sorted(guards)})
        # the reply table of handle_request, per request kind and validator outcome
        table = set()
        for p, variant, valid in rows:
            r = strip_after(p.ret)
            if backend == "uring" and r[0] == "agg" and r[2] == "Some":
                tup = r[3][0][1]
                dst, r2 = (tup[1][0], tup[1][1]) if tup[0] == "tup" else (None, tup)
                kind = reply_kind(r2) + ("@" + show(dst) if dst is not None else "")
            elif r[0] == "agg" and r[2] == "Some":
                kind = reply_kind(r[3][0][1])
            elif r[0] == "agg" and r[2] == "None":
                kind = "None"
            else:
                kind = show(r)[:60]
            vs = tuple(v[1] for v in valid)
            al = tuple(x[1] for x in bool_atoms(p, "aquatic_common::access_list::AccessList::allows"))
            table.add((variant, vs, al, kind))
        at = "@src" if backend == "uring" else ""
        want = {
            ("Connect", (), (), "Connect[txid=(request as Connect).0.transaction_id,id=create_connection_id(src)]" + at),
            ("Announce", (True,), (True,), "announce((request as Announce).0, src)" + at),
            ("Announce", (True,), (False,), "Error[txid=(request as Announce).0.transaction_id]" + at),
            ("Announce", (False,), (), "None"),
            ("Scrape", (True,), (), "Scrape[scrape((request as Scrape).0, src)]" + at),
            ("Scrape", (False,), (), "None"),
        }
        yield ob("R-C06-1", "guard#%s#reply_table" % backend, table == want, b, None,
                 "reply table %s" % sorted(table), {"table": sorted(map(list, table))})
    # sendable parse errors: error reply only under a valid id for (source, the error's connection id)
    for backend, fn, src_txt in (("mio", MIO_R, None), ("uring", URING_R, None)):
        b = fx.fn(fn)
        n = 0
        bad = []
        for p in cpaths(fx, b):
            for i, e in enumerate(p.effects):
                if e[0] == "agg" and e[1].endswith("::Response") and e[2] == "Error":
                    n += 1
                    g = [v for v in bool_atoms(p, VALID) if v[0] <= i and v[1] is True]
                    if not g:
                        bad.append("line %s" % e[4])
                        continue
                    gv = g[-1][2]
                    # connection id must be the Sendable error's, source the datagram's
                    cid = show(gv[2][2])
                    err = dict(e[3])["0"]
                    txid = show(strip_after(dict(err[3])["transaction_id"])) if err[0] == "agg" else "?"
                    if not (re.search(r"as Sendable\)\.connection_id$", cid) and re.search(r"as Sendable\)\.transaction_id$", txid)
                            and cid.replace(".connection_id", "") == txid.replace(".transaction_id", "")):
                        bad.append("id/txid not from the same Sendable error: %s / %s" % (cid[-60:], txid[-60:]))
        yield ob("R-C06-1", "guard#%s#sendable_error" % backend, n > 0 and not bad, b, None,
                 "%d Response::Error constructions on parse-error paths; problems: %s" % (n, sorted(set(bad))), {"sites": n})
    # closed world: who else builds gated replies or calls the swarm in aquatic_udp?
    allowed = {MIO_H, URING_H, MIO_R, URING_R, "aquatic_udp::swarm::TorrentMaps::announce"}
    others = set()
    for bb, i, s in who_constructs(fx, r"aquatic_udp_protocol::(response::)?Response$", crates=["aquatic_udp"]):
        if s["rv"]["agg"]["variant"] in GATED_VARIANTS and not in_test_code(bb):
            others.add(bb.short)
    for bb, i, t in who_calls(fx, r"aquatic_udp::swarm::TorrentMaps::(announce|scrape)$", crates=["aquatic_udp"]):
        if not in_test_code(bb):
            others.add(bb.short)
    yield ob("R-C06-1", "guard#closed_world", others <= allowed, None, None,
             "functions building gated replies / calling the swarm: %s" % sorted(others), {"functions": sorted(others)})


def reply_kind(r):
    r = strip_after(r)
    if r[0] == "agg" and r[1].endswith("::Response"):
        inner = r[3][0][1]
        if r[2] == "Connect" and inner[0] == "agg":
            f = dict(inner[3])
            return "Connect[txid=%s,id=%s]" % (show(f["transaction_id"]), re.sub(r"ConnectionValidator::|self\.validator, ", "", show(f["connection_id"])))
        if r[2] == "Error" and inner[0] == "agg":
            return "Error[txid=%s]" % show(dict(inner[3])["transaction_id"])
        if r[2] == "Scrape" and inner[0] == "call":
            return "Scrape[scrape(%s)]" % ", ".join(show(a) for a in inner[2][1:])
        return "%s[%s]" % (r[2], show(inner)[:60])
    if r[0] == "call" and r[1].endswith("swarm::TorrentMaps::announce"):
        return "announce(%s, %s)" % (show(r[2][4]), show(r[2][5]))
    return show(r)[:60]


def slices(p, marker_rx):
    """Split a path's effects into per-datagram slices at each call matching marker_rx: [(start, end)]"""
    idx = [i for i, e in enumerate(p.effects) if e[0] == "call" and re.search(marker_rx, e[1])]
    out = []
    for k, i in enumerate(idx):
        end = idx[k + 1] if k + 1 < len(idx) else None
        out.append((i, end))
    return out


@PROP.rule("R-C06-2", floor=8, doc="per datagram: <= 1 send; exactly 1 when handle_request answers or a sendable error has a valid id; none for port 0")
def one_reply(fx):
    b = fx.fn(MIO_R)
    ps = cpaths(fx, b)
    n_slices = 0
    multi, port0_bad, some_bad, none_bad, err_bad, args_bad = [], [], [], [], [], []
    cases = set()
    for p in ps:
        sl = slices(p, r"UdpSocket::recv_from$")
        for (s, e) in sl:
            if e is None and p.end != "return":
                continue  # incomplete iteration of a pruned path
            hi = e if e is not None else len(p.effects)
            n_slices += 1
            eff = p.effects[s:hi]
            sends = [x for x in eff if x[0] == "call" and x[1].endswith("Socket::send_response")]
            atoms = [a for a in p.atoms if s < a["neff"] <= hi]
            if len(sends) > 1:
                multi.append(p)
            recv = strip_after(("call", p.effects[s][1], p.effects[s][2], p.effects[s][3]))
            src_new = "CanonicalSocketAddr::new((%s as Ok).0.1)" % show(recv)
            port0 = [sym.atom_bool(a) for a in atoms]
            port0 = [x for x in port0 if x and x[0][0] == "bin" and x[0][1] == "Eq" and "SocketAddr::port(" in show(x[0][2]) and const_int(x[0][3]) == 0]
            is0 = any(x[1] for x in port0)
            acted = [x for x in eff if x[0] == "call" and re.search(r"Request::parse_bytes$|handle_request$|send_response$|connection_id_valid$", x[1])]
            if is0:
                cases.add("port0")
                if acted:
                    port0_bad.append(p)
                continue
            if not port0 and acted:
                port0_bad.append(p)  # acted without testing the port
            hr = [x for x in eff if x[0] == "call" and x[1] == MIO_H]
            some = [sym.atom_variant(fx, a) for a in atoms]
            some = [v for v in some if v and v[0][0] == "call" and v[0][1] == MIO_H]
            if hr:
                is_some = any(v[2] and v[1] == ["Some"] for v in some)
                if is_some:
                    cases.add("handled:Some")
                    if len(sends) != 1:
                        some_bad.append(p)
                    else:
                        a = [show(strip_after(x)) for x in sends[0][2]]
                        hr_args = [show(strip_after(x)) for x in hr[0][2]]
                        okargs = a[2] == src_new and a[3].startswith("(WorkerSharedData::handle_request(") and a[3].endswith(" as Some).0") \
                            and hr_args[2] == src_new and a[4] == "0:bool"
                        if not okargs:
                            args_bad.append((a[2][:80], a[3][:60]))
                else:
                    cases.add("handled:None")
                    if sends:
                        none_bad.append(p)
            else:
                v = [x for x in bool_atoms(p, VALID) if s < x[0] <= hi]
                if v and v[-1][1] is True:
                    cases.add("sendable_error:valid")
                    if len(sends) != 1 or show(strip_after(sends[0][2][2])) != src_new or show(strip_after(v[-1][2][2][1])) != src_new:
                        err_bad.append(p)
                else:
                    cases.add("unanswered")
                    if sends:
                        err_bad.append(p)
    yield ob("R-C06-2", "reply#mio#at_most_one", n_slices > 0 and not multi, b, None,
             "%d per-datagram slices over %d paths; slices with more than one send_response: %d" % (n_slices, len(ps), len(multi)), {"slices": n_slices})
    yield ob("R-C06-2", "reply#mio#port0_ignored", "port0" in cases and not port0_bad, b, None,
             "source port 0 is tested before parsing and ends the iteration with no action (%d offending slices)" % len(port0_bad), {"cases": sorted(cases)})
    yield ob("R-C06-2", "reply#mio#exactly_one_when_answered", "handled:Some" in cases and not some_bad and not args_bad, b, None,
             "handle_request -> Some(reply): exactly one send_response(src of this datagram, that reply) (%d bad, args %s)" % (len(some_bad), args_bad[:2]), {})
    yield ob("R-C06-2", "reply#mio#none_when_unanswered", "handled:None" in cases and not none_bad, b, None,
             "handle_request -> None: no send (%d bad)" % len(none_bad), {})
    yield ob("R-C06-2", "reply#mio#parse_errors", {"sendable_error:valid", "unanswered"} <= cases and not err_bad, b, None,
             "sendable error + valid id: exactly one send to the source; otherwise none (%d bad)" % len(err_bad), {"cases": sorted(cases)})
    # send_response: exactly one send_to per call, destination derived from its canonical_addr parameter, serialisation error -> no send
    b = fx.fn("aquatic_udp::workers::socket::mio::socket::Socket::send_response")
    ps = [p for p in cpaths(fx, b) if p.end == "return"]
    counts = set()
    dests = set()
    for p in ps:
        st = p.calls(r"UdpSocket::send_to$")
        counts.add(len(st))
        for e in st:
            dests.add(show(unwrap_origin(strip_after(e[2][2]), [r"Option::expect$"])))
            w = [x for x in p.calls(r"Response::write_bytes$")]
            if not w or show(strip_after(w[0][2][0])) != "response":
                dests.add("payload-not-response")
    okd = dests == {"CanonicalSocketAddr::get_ipv4(canonical_addr)", "CanonicalSocketAddr::get_ipv6_mapped(canonical_addr)"}
    yield ob("R-C06-2", "reply#mio#send_response", counts <= {0, 1} and 1 in counts and okd, b, None,
             "send_to calls per path %s, destinations %s" % (sorted(counts), sorted(dests)), {"dest": sorted(dests)})
    # uring: handle_cqe pushes one local response iff handle_recv_cqe returned Some
    b = fx.fn("aquatic_udp::workers::socket::uring::SocketWorker::handle_cqe")
    okc = True
    n = 0
    for p in cpaths(fx, b):
        if p.end != "return":
            continue
        rc = p.calls(r"SocketWorker::handle_recv_cqe$")
        pb = p.calls(r"VecDeque.*::push_back$")
        pb = [x for x in pb if "local_responses" in show(x[2][0])]
        if not rc:
            if pb:
                okc = False
            continue
        n += 1
        some = [sym.atom_variant(fx, a) for a in p.atoms]
        some = [v for v in some if v and v[0][0] == "call" and v[0][1].endswith("handle_recv_cqe")]
        is_some = any(v[2] and v[1] == ["Some"] for v in some)
        if len(rc) != 1 or len(pb) != (1 if is_some else 0):
            okc = False
        if is_some and pb:
            a = show(strip_after(pb[0][2][1]))
            if not re.match(r"\(\(SocketWorker::handle_recv_cqe\(.*\) as Some\)\.0\.0, \(SocketWorker::handle_recv_cqe\(.*\) as Some\)\.0\.1\)$", a):
                okc = False
    yield ob("R-C06-2", "reply#uring#handle_cqe", okc and n >= 4, b, None,
             "%d recv paths: local_responses.push_back exactly once iff handle_recv_cqe returned Some, with that (addr, reply)" % n, {"paths": n})
    # uring: handle_recv_cqe returns only handle_request's answer for the parsed (request, addr) or a gated error
    b = fx.fn(URING_R)
    kinds = set()
    for p in cpaths(fx, b):
        if p.end != "return":
            continue
        r = strip_after(p.ret)
        if r[0] == "agg" and r[2] == "None":
            kinds.add("None")
        elif r[0] == "call" and r[1] == URING_H:
            args = [show(a) for a in r[2][1:]]
            parse = "(<dyn RecvHelper as RecvHelper>::parse"
            okargs = all(re.match(r"\(RecvHelper::parse\(self\.recv_helper_v[46], ", a) for a in args) and args[0].endswith("as Ok).0.0") \
                and args[1].endswith("as Ok).0.1") and args[0][:-2] == args[1][:-2]
            kinds.add("handle_request(parse.0, parse.1)" if okargs else "handle_request(%s)" % args)
        elif r[0] == "agg" and r[2] == "Some":
            tup = r[3][0][1]
            kinds.add("Some((%s, %s))" % ("parse-error addr" if re.search(r"as RequestParseError\)\.1$", show(tup[1][0])) else show(tup[1][0])[-50:], reply_kind(tup[1][1])[:5]))
        else:
            kinds.add(show(r)[:80])
    want = {"None", "handle_request(parse.0, parse.1)", "Some((parse-error addr, Error))"}
    yield ob("R-C06-2", "reply#uring#handle_recv_cqe", kinds == want, b, None, "return shapes %s" % sorted(kinds), {"returns": sorted(kinds)})
    # uring recv helpers: port 0 rejected before parsing; canonical address built from the kernel-provided name
    for fam in ("V4", "V6"):
        b = fx.fn("<aquatic_udp::workers::socket::uring::recv_helper::RecvHelper%s as aquatic_udp::workers::socket::uring::recv_helper::RecvHelper>::parse" % fam)
        okp = True
        seen0 = False
        for p in cpaths(fx, b):
            if p.end != "return":
                continue
            pa = p.calls(r"Request::parse_bytes$")
            at = [sym.atom_bool(a) for a in p.atoms]
            at = [(a, x) for a, x in zip(p.atoms, at) if x and x[0][0] == "bin" and x[0][1] == "Eq" and "SocketAddr::port(" in show(x[0][2]) and const_int(x[0][3]) == 0]
            if at and at[0][1][1]:
                seen0 = True
                r = strip_after(p.ret)
                if pa or not (r[0] == "agg" and r[2] == "Err"):
                    okp = False
            if pa and not (at and at[0][1][1] is False):
                okp = False
        yield ob("R-C06-2", "reply#uring#port0#%s" % fam, okp and seen0, b, None,
                 "port 0 -> Err before Request::parse_bytes; parsing only on the port != 0 edge", {})


@PROP.rule("R-C06-3", floor=4, doc="uring send path: reply and destination popped together from local_responses; sockaddr filled from that address")
def uring_send(fx):
    b = fx.fn("aquatic_udp::workers::socket::uring::SocketWorker::run_inner")
    pe = set()
    for line, callee, args in call_args(fx, b, r"SendBuffers::prepare_entry$"):
        pe.add((show(args[2])[:200], show(args[3])[:200]))
    okp = bool(pe) and all(re.search(r"VecDeque::pop_front\(self.*\.local_responses.*\) as Some\)\.0\.1$", a) and
                          re.search(r"VecDeque::pop_front\(self.*\.local_responses.*\) as Some\)\.0\.0$", d) for a, d in pe)
    yield ob("R-C06-3", "send#uring#queue_pair", okp, b, None, "prepare_entry(response, addr) = %s" % sorted(pe), {"args": sorted(map(list, pe))})
    b = fx.fn("aquatic_udp::workers::socket::uring::send_buffers::SendBuffers::prepare_entry")
    inner = set()
    for line, callee, args in call_args(fx, b, r"SendBuffer::prepare_entry$"):
        inner.add((show(args[1]), show(args[2]), show(args[3])))
    yield ob("R-C06-3", "send#uring#buffers_forward", inner == {("response", "addr", "send_to_ipv4_socket")}, b, None,
             "SendBuffer::prepare_entry(response, addr, socket) = %s" % sorted(inner), {"args": sorted(map(list, inner))})
    b = fx.fn("aquatic_udp::workers::socket::uring::send_buffers::SendBuffer::prepare_entry")
    writes = {}
    okw = True
    for p in cpaths(fx, b):
        if p.end != "return":
            continue
        r = strip_after(p.ret)
        ok_ret = r[0] == "agg" and r[2] == "Ok"
        v4 = [sym.atom_bool(a) for a in p.atoms]
        v4 = [x[1] for x in v4 if x and fp(x[0]) == "send_to_ipv4_socket"]
        for e in p.effects:
            if e[0] == "write" and e[5]:
                k = ".".join(str(x[1]) for x in e[5] if x[0] == "f")
                if k in ("name_v4.sin_port", "name_v4.sin_addr.s_addr", "name_v6.sin6_port", "name_v6.sin6_addr.s6_addr"):
                    writes.setdefault(k, set()).add(show(strip_after(e[2])))
        if ok_ret:
            w = [x for x in p.calls(r"Response::write_bytes$")]
            if not w or show(strip_after(w[0][2][0])) != "response":
                okw = False
    want = {
        "name_v4.sin_port": {"<impl u16>::to_be(SocketAddrV4::port(((CanonicalSocketAddr::get_ipv4(addr) as Some).0 as V4).0))"},
        "name_v4.sin_addr.s_addr": {"<impl u32>::to_be(<impl From for u32>::from(SocketAddrV4::ip(((CanonicalSocketAddr::get_ipv4(addr) as Some).0 as V4).0)))"},
        "name_v6.sin6_port": {"<impl u16>::to_be(SocketAddrV6::port((CanonicalSocketAddr::get_ipv6_mapped(addr) as V6).0))"},
        "name_v6.sin6_addr.s6_addr": {"Ipv6Addr::octets(SocketAddrV6::ip((CanonicalSocketAddr::get_ipv6_mapped(addr) as V6).0))"},
    }
    yield ob("R-C06-3", "send#uring#sockaddr", writes == want and okw, b, None, "sockaddr fields <- %s" % {k: sorted(v) for k, v in writes.items()},
             {"writes": {k: sorted(v) for k, v in writes.items()}})
    # who may push to local_responses
    who = sorted(set(bb.short for bb, i, t in who_calls(fx, r"VecDeque.*::push_(back|front)$", crates=["aquatic_udp"])
                     if "Response" in " ".join(t["op_tys"]) and not in_test_code(bb)))
    allowed = ["aquatic_udp::workers::socket::uring::SocketWorker::handle_cqe", "aquatic_udp::workers::socket::uring::SocketWorker::run_inner"]
    yield ob("R-C06-3", "send#uring#who_queues", who == allowed, None, None, "functions queueing replies: %s" % who, {"who": who})


@PROP.rule("R-C06-5", floor=2, doc="no amplification: connect reply size <= smallest accepted connect request")
def amplification(fx):
    lay = unit_layout(fx, "aquatic_udp_protocol.lib", "ConnectResponse")
    reply = 4 + lay["size"]
    b = fx.fn("aquatic_udp_protocol::request::Request::parse_bytes")
    need = None
    for p in ok_paths(paths(fx, b)):
        if any(a["label"] == ("sw", 0) and a.get("ty") == "i32" for a in p.atoms):
            widths = [int(re.search(r"read_[iu](\d+)_ne$", e[1]).group(1)) // 8 for e in p.effects if e[0] == "call" and re.search(r"::read_[iu]\d+_ne$", e[1])]
            need = max(sum(widths), 12)  # the action selector itself needs bytes 8..12
    yield ob("R-C06-5", "amplification#connect", need is not None and reply <= need, b, None,
             "connect reply = 4 + %d = %d bytes; an accepted connect request has at least %s bytes" % (lay["size"], reply, need), {"reply": reply, "request_min": need})
    # the connect arm is the only one that answers without a validator test (from the reply tables of R-C06-1)
    yield ob("R-C06-5", "amplification#only_connect_ungated", True, None, None, "see guard#*#reply_table", trivial=True)


@PROP.rule("R-C06-6", floor=3, doc="scrape reply lists the (already truncated) hashes in request order; limit passed to the parser is the configured one")
def scrape_order(fx):
    b = fx.fn("aquatic_udp::swarm::TorrentMapShards::scrape")
    ps = [p for p in cpaths(fx, b) if p.end == "return"]
    ok1 = False
    it = set()
    for p in ps:
        pushes = [e for e in p.calls(r"Vec.*::push$")]
        for e in p.calls(r"IntoIterator>::into_iter$"):
            it.add(show(strip_after(e[2][0])))
        if len(pushes) == 1:
            ok1 = True
    bad_iter = [t["line"] for i, t in b.calls(r"Iterator>::(rev|skip|step_by|filter|take)$|::sort|dedup")]
    r = [strip_after(p.ret) for p in ps]
    txid = set(show(dict(x[3])["transaction_id"]) for x in r if x[0] == "agg") | set(show(x)[:40] for x in r if x[0] != "agg")
    yield ob("R-C06-6", "scrape#order", ok1 and it == {"request.info_hashes"} and not bad_iter, b, None,
             "iterates %s, one push per hash, reordering/skipping adapters: %s" % (sorted(it), bad_iter), {"iter": sorted(it)})
    rt = set()
    for p in ps:
        rr = strip_after(p.ret)
        rt.add(show(rr)[:100])
    yield ob("R-C06-6", "scrape#txid", all("transaction_id: request.transaction_id" in x for x in rt) and bool(rt), b, None, "returns %s" % sorted(rt), {"ret": sorted(rt)})
    lim = set()
    for bb, i, t in who_calls(fx, r"aquatic_udp_protocol::(request::)?Request::parse_bytes$", crates=["aquatic_udp"]):
        if in_test_code(bb):
            continue
        for line, callee, args in call_args(fx, bb, r"Request::parse_bytes$"):
            lim.add(fp(args[1]))
    news = set()
    for fam in ("V4", "V6"):
        nb = fx.fn("aquatic_udp::workers::socket::uring::recv_helper::RecvHelper%s::new" % fam)
        for p in cpaths(fx, nb):
            for e in p.effects:
                if e[0] == "agg" and e[1].endswith("RecvHelper" + fam):
                    news.add(fp(strip_after(dict(e[3])["max_scrape_torrents"])))
    want = {"self.max_scrape_torrents", "shared.config.protocol.max_scrape_torrents"}
    yield ob("R-C06-6", "scrape#limit_origin", lim == want and news == {"config.protocol.max_scrape_torrents"}, None, None,
             "parse_bytes limit argument: %s; uring helper field <- %s" % (sorted(lim), sorted(news)), {"limit": sorted(lim), "helper_field": sorted(news)})


@PROP.rule("R-C06-7", floor=3, doc="mio resend buffer: a reply is queued only after its send failed and only when resending is enabled; a queued reply is retried once, with queueing disabled; nobody else touches the buffer")
def resend(fx):
    b = fx.fn("aquatic_udp::workers::socket::mio::socket::Socket::send_response")
    ps = [p for p in cpaths(fx, b) if p.end == "return"]
    n_push = 0
    bad = []
    for p in ps:
        for i, e in enumerate(p.effects):
            if not (e[0] == "call" and re.search(r"Vec::push$", e[1])):
                continue
            n_push += 1
            # the pushed pair is this call's own (canonical_addr, response)
            pushed = show(strip_after(e[2][1]))
            if pushed != "(canonical_addr, response)":
                bad.append("pushes %s" % pushed[:60])
            # target is the socket's resend buffer
            if "opt_resend_buffer" not in show(strip_after(e[2][0])):
                bad.append("push target %s" % show(strip_after(e[2][0]))[:60])
            # send_to was attempted before and returned Err on this path
            st = [j for j, x in enumerate(p.effects) if x[0] == "call" and re.search(r"UdpSocket::send_to$", x[1]) and j < i]
            if len(st) != 1:
                bad.append("push without a prior send_to")
            err = [a for a in p.atoms if a["neff"] <= i and (sym.atom_variant(fx, a) or (None, None, None, None))[1:3] == (("Err",), True)
                   and "UdpSocket::send_to" in show(a["discr"])]
            err = err or [a for a in p.atoms if a["neff"] <= i and "UdpSocket::send_to" in show(a["discr"]) and _is_err_atom(fx, a)]
            if not err:
                bad.append("push not under send_to -> Err")
            dis = [sym.atom_bool(a) for a in p.atoms if a["neff"] <= i]
            dis = [x for x in dis if x and show(strip_after(x[0])) == "disable_resend_buffer"]
            if not dis or dis[-1][1] is not False:
                bad.append("push not under !disable_resend_buffer")
    yield ob("R-C06-7", "resend#mio#queue_only_failed", n_push >= 1 and not bad, b, None,
             "%d push effect(s) over %d paths: each after exactly one failed send_to, under !disable_resend_buffer, queues (canonical_addr, response) %s"
             % (n_push, len(ps), bad[:3]), {"pushes": n_push})
    b = fx.fn("aquatic_udp::workers::socket::mio::socket::Socket::resend_failed")
    ps = cpaths(fx, b)
    n = 0
    bad = []
    for p in ps:
        for e in p.calls(r"Socket::send_response$"):
            n += 1
            a = [strip_after(x) for x in e[2]]
            addr, resp, flag = show(a[2]), show(a[3]), a[4]
            if not (re.search(r"Drain as Iterator>::next\(", addr) and addr.endswith(".0.0") and resp == addr[:-1] + "1"):
                bad.append("retry args %s / %s" % (addr[-40:], resp[-40:]))
            if not (flag[0] == "c" and flag[3] in (1, True)):
                bad.append("retry with queueing enabled: %s" % show(flag))
    src = [e for p in ps for e in p.calls(r"Vec::drain$")]
    yield ob("R-C06-7", "resend#mio#retry_once", n >= 1 and not bad and bool(src), b, None,
             "%d retry send_response call(s): (addr, reply) come from one drained element, disable_resend_buffer = true %s" % (n, bad[:3]), {"retries": n})
    # who touches the buffer
    uses = field_uses(fx, r"mio::socket::Socket$", "opt_resend_buffer", crates={"aquatic_udp"})
    owners = sorted({u[0].short.split("::")[-1] for u in uses if not in_test_code(u[0])})
    allowed = {"send_response", "resend_failed", "create"}
    yield ob("R-C06-7", "resend#mio#who_touches_buffer", bool(owners) and set(owners) <= allowed, None, None,
             "opt_resend_buffer is used by %s" % owners, {"users": owners})


def _is_err_atom(fx, a):
    v = sym.atom_variant(fx, a)
    return bool(v) and v[1] and v[1][0] == "Err" and v[2]


@PROP.rule("R-C06-8", floor=3, doc="uring send buffers: every reply is sent with its own length and to its own address (message header re-pointed and "
                                   "length reset on every use), and a buffer returns to the pool after every completion, failed or not")
def uring_send_buffers(fx):
    b = fx.fn("aquatic_udp::workers::socket::uring::send_buffers::SendBuffer::prepare_entry")
    n = 0
    bad = set()
    fds = {}
    for p in cpaths(fx, b):
        if p.end != "return" or p.ret is None:
            continue
        r = strip_after(p.ret)
        if not (r[0] == "agg" and r[2] == "Ok"):
            continue
        n += 1
        v4 = [x[1] for x in (sym.atom_bool(a) for a in p.atoms) if x and fp(x[0]) == "send_to_ipv4_socket"]
        if len(v4) != 1:
            bad.add("the socket family is not decided by send_to_ipv4_socket alone")
            continue
        fam = "v4" if v4[0] else "v6"
        w = {}
        order = []
        for i, e in enumerate(p.effects):
            if e[0] == "write" and e[5]:
                k = ".".join(str(x[1]) for x in e[5] if x[0] == "f")
                w[k] = (i, show(strip_after(e[2])))
            if e[0] == "call" and re.search(r"Response::write_bytes$", e[1]):
                order.append(i)
        name = w.get("msghdr.msg_name", (None, ""))[1]
        if name != "self.name_%s" % fam:
            bad.add("%s: msg_name <- %s (the header keeps pointing at whatever address the buffer was last used with)" % (fam, name or "not written"))
        sizes = [e[6] for e in p.effects if e[0] == "call" and e[1].endswith("mem::size_of") and len(e) > 6]
        want_ty = ("libc::sockaddr_in",) if fam == "v4" else ("libc::sockaddr_in6",)
        if "msghdr.msg_namelen" not in w or want_ty not in [tuple(s) for s in sizes] or not re.match(r"^\(size_of\(\) as u32\)$", w["msghdr.msg_namelen"][1]):
            bad.add("%s: msg_namelen <- %s with size_of%s" % (fam, w.get("msghdr.msg_namelen", (None, "not written"))[1], sizes))
        il = w.get("iovec.iov_len")
        if il is None or not order or il[0] < order[0] or not re.match(r"^\(Cursor::position\(Cursor::new\(.*self\.bytes.*\)'*\) as usize\)$", il[1]):
            bad.add("%s: iov_len <- %s (must be the cursor position after Response::write_bytes; otherwise the previous / full buffer length is sent)" % (fam, il[1][:60] if il else "not written"))
        m = re.search(r"SendMsg::new\((\d+):io_uring::types::Fixed, self\.msghdr\)", show(r))
        fds[fam] = m.group(1) if m else None
    yield ob("R-C06-8", "send#uring#msghdr_per_reply", n >= 2 and not bad and fds.get("v4") == "0" and fds.get("v6") == "1", b, None,
             "%d Ok paths: msg_name / msg_namelen re-pointed to this reply's sockaddr, iov_len = bytes written for this reply, fixed file %s; deviations: %s"
             % (n, fds, sorted(bad)[:3]), {"paths": n, "fds": fds})
    # completion: the buffer goes back to the pool on every path of the send-completion arm
    h = fx.fn("aquatic_udp::workers::socket::uring::SocketWorker::handle_cqe")
    n = 0
    bad = set()
    for p in cpaths(fx, h):
        if p.end != "return":
            continue
        if p.calls(r"SocketWorker::handle_recv_cqe$") or p.calls(r"ConnectionValidator::update_elapsed$"):
            continue
        n += 1
        fr = p.calls(r"SendBuffers::mark_buffer_as_free$")
        if len(fr) != 1 or show(strip_after(fr[0][2][1])) != "(Entry::user_data(cqe) as usize)":
            bad.add("%d release(s) %s" % (len(fr), [show(strip_after(x[2][1]))[:40] for x in fr]))
    yield ob("R-C06-8", "send#uring#buffer_released_on_every_completion", n >= 2 and not bad, h, None,
             "%d send-completion paths (successful and failed sends): each releases exactly the buffer named by the completion's user_data; deviations: %s" % (n, sorted(bad)), {"paths": n})
    # hand-out: the buffer is marked busy and the entry is tagged with the same index
    s = fx.fn("aquatic_udp::workers::socket::uring::send_buffers::SendBuffers::prepare_entry")
    n = 0
    bad = set()
    for p in cpaths(fx, s):
        if p.end != "return" or p.ret is None:
            continue
        r = strip_after(p.ret)
        if not (r[0] == "agg" and r[2] == "Ok"):
            continue
        n += 1
        idx = "(SendBuffers::next_free_index(self) as Some).0"
        busy = [show(strip_after(e[2])) for e in p.effects if e[0] == "write" and e[5] and e[5][-1] == ("f", "free") and idx in show(e[1])]
        tag = [show(strip_after(e[2][1])) for e in p.calls(r"Entry::user_data$")]
        if busy != ["0:bool"]:
            bad.add("free flag of the chosen buffer <- %s" % busy)
        if tag != ["(%s as u64)" % idx]:
            bad.add("entry tagged with %s" % tag)
    yield ob("R-C06-8", "send#uring#buffer_busy_and_tagged", n >= 1 and not bad, s, None,
             "%d Ok path(s): chosen buffer marked busy, submission tagged with its index; deviations: %s" % (n, sorted(bad)), {"paths": n})


@PROP.rule("R-C06-9", floor=1, doc="uring receive side: each completion is handled with the helper, the socket family and the re-arm entry of the socket it came from")
def uring_recv_arms(fx):
    R = "aquatic_udp::workers::socket::uring::recv_helper::"
    fam = {}
    bad = set()
    for v, fd, hdr in (("v4", "0", "msghdr_v4"), ("v6", "1", "msghdr_v6")):
        c = fx.fn(R + "RecvHelper%s::create_entry" % v.upper())
        rets = {show(strip_after(p.ret)) for p in cpaths(fx, c) if p.end == "return" and p.ret is not None}
        m = [re.match(r"^Entry::user_data\(RecvMsgMulti::build\(RecvMsgMulti::new\((\d+):io_uring::types::Fixed, self\.(\w+), buf_group\)\), (\d+):u64\)$", r) for r in rets]
        if len(rets) != 1 or not m[0] or m[0].group(1) != fd or m[0].group(2) != hdr:
            bad.add("create_entry(%s) = %s" % (v, sorted(rets)[:1]))
            continue
        fam[m[0].group(3)] = v
    if len(fam) != 2:
        bad.add("the two receive entries do not carry two distinct tags: %s" % fam)
    # the worker stores the v4 entry in recv_sqe_ipv4 and the v6 entry in recv_sqe_ipv6
    run = fx.fn("aquatic_udp::workers::socket::uring::SocketWorker::run")
    stored = set()
    for p in cpaths(fx, run):
        for e in p.effects:
            if e[0] == "agg" and str(e[1]).endswith("uring::SocketWorker"):
                pass
        for e in p.calls(r"CurrentRing::with$"):
            s = show(e[2][0])
            for f4, f6 in re.findall(r"recv_sqe_ipv4: (RecvHelperV\d)::create_entry\(.*?recv_sqe_ipv6: (RecvHelperV\d)::create_entry\(", s):
                stored.add((f4, f6))
    if stored != {("RecvHelperV4", "RecvHelperV6")}:
        bad.add("worker fields (recv_sqe_ipv4, recv_sqe_ipv6) built by %s" % sorted(stored))
    h = fx.fn("aquatic_udp::workers::socket::uring::SocketWorker::handle_cqe")
    n = 0
    for p in cpaths(fx, h):
        if p.end != "return":
            continue
        rc = p.calls(r"SocketWorker::handle_recv_cqe$")
        if not rc:
            continue
        n += 1
        tags = []
        for a in p.atoms:
            t = sym.atom_text(fx, a)
            m = re.match(r"^Entry::user_data\(cqe\) == (\d+)$", t)
            if m:
                tags.append(m.group(1))
        v = fam.get(tags[0]) if len(tags) == 1 else None
        if v is None:
            bad.add("receive completion not selected by one of the two receive tags: %s" % tags)
            continue
        flag = show(strip_after(rc[0][2][2]))
        if len(rc) != 1 or flag != ("1:bool" if v == "v4" else "0:bool"):
            bad.add("%s completion handled with received_on_ipv4_socket = %s" % (v, flag))
        rearm = [show(strip_after(e[2][1])) for e in p.calls(r"Vec.*::push$") if "resubmittable_sqe_buf" in show(e[2][0])]
        if any(not re.match(r"^self'*\.recv_sqe_ip%s$" % v, x) for x in rearm):
            bad.add("%s completion re-arms %s" % (v, rearm))
        more = [sym.atom_bool(a) for a in p.atoms]
        more = [x[1] for x in more if x and show(strip_after(x[0])) == "more(Entry::flags(cqe))"]
        if more and more[0] is False and len(rearm) != 1:
            bad.add("%s multishot ended (no MORE flag) but the receive is re-armed %d times" % (v, len(rearm)))
    # handle_recv_cqe picks the helper of that family
    hr = fx.fn("aquatic_udp::workers::socket::uring::SocketWorker::handle_recv_cqe")
    k = 0
    for p in cpaths(fx, hr):
        pc = p.calls(r"RecvHelper::parse$")
        if not pc:
            continue
        k += 1
        fl = [x[1] for x in (sym.atom_bool(a) for a in p.atoms) if x and fp(x[0]) == "received_on_ipv4_socket"]
        recv = show(strip_after(pc[0][2][0]))
        if len(fl) != 1 or recv != ("self.recv_helper_v4" if fl[0] else "self.recv_helper_v6"):
            bad.add("received_on_ipv4_socket=%s parsed by %s" % (fl, recv))
    yield ob("R-C06-9", "recv#uring#family_arms", n >= 8 and k >= 2 and not bad, h, None,
             "tags %s; %d receive-completion paths and %d parse sites: flag, helper and re-armed entry all belong to the socket the completion came from; "
             "a finished multishot receive is re-armed exactly once; deviations: %s" % (fam, n, k, sorted(bad)[:3]), {"paths": n, "parse_sites": k})


def _socket_family_of(body, op):
    """the address family (Ipv4 / Ipv6) of the Option<Socket<V>> local an operand is derived from (backward def chase by type)"""
    pl = op.get("cp") or op.get("mv")
    if pl is None:
        return set()
    defs = {}
    for blk in body.blocks:
        for st in blk["stmts"]:
            if st.get("k") == "assign":
                defs.setdefault(st["lhs"]["l"], []).append(("rv", st["rv"]))
        t = blk["term"]
        if t["k"] == "call" and t.get("dest") is not None:
            defs.setdefault(t["dest"]["l"], []).append(("call", t))

    def locals_in(o):
        out = []
        if isinstance(o, dict):
            if "l" in o and isinstance(o["l"], int):
                out.append(o["l"])
            for v in o.values():
                out += locals_in(v)
        elif isinstance(o, list):
            for v in o:
                out += locals_in(v)
        return out
    seen, todo, fams = set(), [pl["l"]], set()
    while todo and len(seen) < 200:
        l = todo.pop()
        if l in seen:
            continue
        seen.add(l)
        ty = body.locals[l]["ty"]
        m = re.search(r"Option<.*Socket<.*\b(Ipv4|Ipv6)>>", ty)
        if m:
            fams.add(m.group(1))
            continue
        for kind, x in defs.get(l, []):
            todo += locals_in(x["ops"] if kind == "call" else x)
    return fams


@PROP.rule("R-C06-10", floor=2, doc="mio backend: each socket is registered under its own token and a readiness event is served by reading that socket; "
                                    "the receive loop only stops when the socket has nothing more to deliver (edge-triggered readiness)")
def mio_dispatch(fx):
    run = fx.fn("aquatic_udp::workers::socket::mio::run")
    reg = {}
    for i, t in run.calls(r"Registry::register$"):
        tok = t["ops"][2].get("c", {}).get("int") if len(t["ops"]) > 2 else None
        reg.setdefault(tok, set()).update(_socket_family_of(run, t["ops"][1]))
    reads = {}
    bad = set()
    for p in cpaths(fx, run):
        for i, e in enumerate(p.effects):
            if e[0] == "call" and e[1].endswith("Socket::read_and_handle_requests"):
                fam = [g.split("::")[-1] for g in (e[6] if len(e) > 6 else ()) if re.search(r"Ipv[46]$", g)]
                toks = []
                for a in p.atoms:
                    if a["neff"] <= i:
                        m = re.match(r"^Event::token\(.*\)\.0 == (\d+)$", sym.atom_text(fx, a))
                        if m:
                            toks.append(int(m.group(1)))
                if not toks or len(fam) != 1:
                    bad.add("read of %s socket not selected by an event token (%s)" % (fam, toks[-1:]))
                    continue
                reads.setdefault(toks[-1], set()).add(fam[0])
    ok = len(reg) == 2 and all(len(v) == 1 for v in reg.values()) and reads == reg and not bad
    yield ob("R-C06-10", "dispatch#mio#token_per_socket", ok, run, None,
             "registered (token -> socket family) %s; readiness events served by reading (token -> family) %s %s" % (
                 {k: sorted(v) for k, v in reg.items()}, {k: sorted(v) for k, v in reads.items()}, sorted(bad)), {"registered": {str(k): sorted(v) for k, v in reg.items()}})
    # drain: the only way out of the receive loop is recv_from -> Err(WouldBlock)
    b = fx.fn("aquatic_udp::workers::socket::mio::socket::Socket::read_and_handle_requests")
    n = 0
    bad = set()
    for p in cpaths(fx, b):
        if p.end != "return":
            continue
        n += 1
        last = None
        for a in p.atoms:
            ab = sym.atom_bool(a)
            v = sym.atom_variant(fx, a)
            if v and "UdpSocket::recv_from(" in show(v[0]) and not show(strip_after(v[0])).startswith("Request::parse_bytes"):
                last = ("variant", v[1], v[2])
            elif ab:
                x = strip_after(ab[0])
                if x[0] == "call" and re.search(r"ErrorKind as .*PartialEq>::eq$", x[1]) and len(x[2]) == 2 and "UdpSocket::recv_from(" in show(x[2][0]):
                    rhs = x[2][1]
                    val = None
                    if rhs[0] == "c" and rhs[2] == "promoted":
                        pr = [q.ret for q in paths(fx, fx.promoted(b, rhs[3])) if q.end == "return"]
                        val = show(pr[0]) if pr else None
                    last = ("kind", val, ab[1])
        if last != ("kind", "ErrorKind::WouldBlock{}", True):
            bad.add(str(last))
    yield ob("R-C06-10", "dispatch#mio#drains_until_would_block", n >= 1 and not bad, b, None,
             "%d returning paths of the receive loop; each leaves it on recv_from -> Err(kind == WouldBlock); other exits: %s" % (n, sorted(bad)[:3]), {"paths": n})
