"""C20 - UDP operator reports are faithful; scrape export is replaced atomically."""
import re

from aq import sym
from aq.core import Property
from aq.facts import callee_name, strip_generics
from aq.sym import show, strip_after
from aq.util import call_args, cpaths, fp, has_call, calls_in, in_test_code, ob, paths, who_calls, const_int, const_str

PROP = Property(
    "C20", "other",
    "Necessary conditions decided path by path: the export is written to a sibling temporary file, flushed, "
    "closed and only then renamed onto the configured path (rename only on the Ok edge of flush; nobody opens the "
    "final path for writing), each export line carries the counts of the same cleaning pass and only for torrents "
    "with peers; per-client tally messages name the STORED peer's id on removal, the request's id on creation, "
    "and both on an id change; the statistics worker adds/subtracts one per message; totals are stored for both "
    "families after both passes from what the passes returned.",
    ["aqfacts MIR extraction", "POSIX rename atomicity within one directory", "crossbeam unbounded channel delivers every message"],
    ["the statistics worker's arithmetic over message histories and file-system atomicity are not decided"],
)
SW = "aquatic_udp::swarm"


@PROP.rule("R-C20-1", floor=5, doc="export protocol: create(tmp) < write < flush < close < rename(tmp -> path); rename only after a successful flush")
def export(fx):
    b = fx.fn(SW + "::TorrentMaps::clean_and_update_statistics")
    ps = [p for p in cpaths(fx, b) if p.end == "return"]
    n_ren = 0
    bad = []
    creates, renames = set(), set()
    for p in ps:
        idx = {}
        for i, e in enumerate(p.effects):
            if e[0] != "call":
                continue
            for k, rx in (("create", r"fs::File::create$"), ("clean", r"TorrentMapShards::clean_and_get_statistics$"), ("flush", r"BufWriter.*Write>::flush$|io::Write::flush$"),
                          ("drop", r"mem::drop$"), ("rename", r"fs::rename$"), ("open", r"OpenOptions.*::open$|fs::write$")):
                if re.search(rx, e[1]):
                    idx.setdefault(k, []).append((i, e))
        for i, e in idx.get("create", []):
            creates.add(show(strip_after(e[2][0])))
        if "rename" not in idx:
            continue
        # correlation idiom: the writer option was assigned the constant None (export disabled or create failed) and is
        # only ever filled by File::create here (closed world below) - `take()` cannot yield Some on such a path
        tk = [e for e in p.calls(r"Option.*::take$")]
        if tk and strip_after(tk[0][2][0])[0] == "agg" and strip_after(tk[0][2][0])[2] == "None":
            continue
        n_ren += 1
        ri, re_ = idx["rename"][0]
        renames.add(tuple(show(strip_after(a)) for a in re_[2]))
        order = [("create", 1), ("clean", 2), ("flush", 1), ("drop", 1)]
        last = -1
        okp = True
        for k, cnt in order:
            xs = idx.get(k, [])
            if len(xs) < cnt or min(x[0] for x in xs) < last or max(x[0] for x in xs) > ri:
                okp = False
            else:
                last = max(x[0] for x in xs)
        # the dropped value is the writer that was flushed
        if okp:
            d = strip_after(idx["drop"][-1][1][2][0])
            f = strip_after(idx["flush"][0][1][2][0])
            if "BufWriter" not in show(d) and "opt_scrape_export_writer" not in show(d) and show(d) != show(f):
                pass
        fl = [sym.atom_variant(fx, a) for a in p.atoms]
        fl = [v for v in fl if v and "Write>::flush(" in show(strip_after(v[0])) or (v and "::flush(" in show(strip_after(v[0])))]
        flush_ok = any((v[2] and v[1] == ["Ok"]) or (not v[2] and v[1] == ["Err"]) for v in fl)
        if not okp:
            bad.append("order of %s" % sorted((k, [x[0] for x in v]) for k, v in idx.items()))
        if not flush_ok:
            bad.append("rename not on the Ok edge of flush")
    yield ob("R-C20-1", "export#order", n_ren > 0 and not bad, b, None,
             "%d paths rename the export; problems: %s" % (n_ren, sorted(set(bad))[:3]), {"paths": n_ren})
    yield ob("R-C20-1", "export#tmp_target", creates == {"ScrapeExportConfig::tmp_path(config.scrape_exports)"}, b, None,
             "File::create(%s)" % sorted(creates), {"create": sorted(creates)})
    yield ob("R-C20-1", "export#rename_args", renames == {("ScrapeExportConfig::tmp_path(config.scrape_exports)", "config.scrape_exports.path")}, b, None,
             "rename(%s)" % sorted(renames), {"rename": sorted(map(list, renames))})
    tp = fx.fn("aquatic_udp::config::ScrapeExportConfig::tmp_path")
    r = [show(strip_after(p.ret)) for p in paths(fx, tp) if p.end == "return"]
    yield ob("R-C20-1", "export#tmp_same_directory", r == ["Path::with_extension(self.path, 'tmp')"], tp, None,
             "tmp_path() = %s (same directory, hence same file system)" % r, {"tmp_path": r})
    writers = sorted(set(bb.short for bb, i, t in who_calls(fx, r"fs::File::create$|fs::OpenOptions.*::open$|fs::write$|fs::copy$", crates=["aquatic_udp"]) if not in_test_code(bb)))
    # allowed exception: the statistics page is written to its own configured path (config.statistics.html_file_path)
    html = fx.fn("aquatic_udp::workers::statistics::save_html_to_file")
    html_args = set(show(a[0]) for l, c, a in call_args(fx, html, r"fs::File::create$"))
    allowed = {SW + "::TorrentMaps::clean_and_update_statistics", "aquatic_udp::workers::statistics::save_html_to_file"}
    yield ob("R-C20-1", "export#who_opens_for_writing", set(writers) <= allowed and SW + "::TorrentMaps::clean_and_update_statistics" in writers
             and html_args <= {"config.statistics.html_file_path"}, None, None,
             "file-creating functions in aquatic_udp: %s (statistics page path: %s)" % (writers, sorted(html_args)), {"writers": writers})


@PROP.rule("R-C20-1b", floor=1, doc="the configured export path is only ever the destination of the rename: no other file-system call names it (remove-then-rename is not atomic)")
def export_final_path(fx):
    FS = r"^std::fs::[a-z_]+$|std::fs::File::(create|create_new|open|options)$|std::fs::OpenOptions::open$|tokio::fs::|std::os::unix::fs::"
    touches = []
    n_calls = 0
    for bb in fx.fns(r"^aquatic_udp::", crates=["aquatic_udp"]):
        if in_test_code(bb) or bb.kind == "promoted":
            continue
        if not any(True for _ in bb.calls(FS)):
            continue
        for line, callee, args in call_args(fx, bb, FS):
            n_calls += 1
            shown = [show(strip_after(a)) for a in args]
            if any("scrape_exports" in x for x in shown):
                touches.append((bb.short.replace("aquatic_udp::", ""), callee.split("::")[-1], tuple(shown)))
    touches = sorted(set(touches))
    want = [("swarm::TorrentMaps::clean_and_update_statistics", "create", ("ScrapeExportConfig::tmp_path(config.scrape_exports)",)),
            ("swarm::TorrentMaps::clean_and_update_statistics", "rename", ("ScrapeExportConfig::tmp_path(config.scrape_exports)", "config.scrape_exports.path"))]
    extra = [t for t in touches if t not in want]
    yield ob("R-C20-1b", "export#final_path_only_renamed_onto", n_calls >= 3 and all(w in touches for w in want) and not extra, None, None,
             "%d std::fs calls in aquatic_udp; those naming the export paths: %s; unexpected: %s" % (n_calls, [(t[1], t[2]) for t in touches], extra),
             {"fs_calls": n_calls, "export_path_calls": [list(map(str, t)) for t in touches]})


@PROP.rule("R-C20-2", floor=2, doc="export content: the counts of this pass for this torrent, only when it has peers")
def content(fx):
    b = fx.fn(SW + "::TorrentMapShards::clean_and_get_statistics")
    ps = cpaths(fx, b)
    lines = set()
    guarded = True
    n = 0
    for p in ps:
        for i, e in enumerate(p.effects):
            if e[0] == "call" and e[1].endswith("write_fmt"):
                n += 1
                a = strip_after(e[2][1])
                if not (a[0] == "call" and a[1].endswith("Arguments::new") and a[2][1][0] == "arr"):
                    lines.add("unexpected format call")
                    continue
                parts = []
                for x in a[2][1][1]:
                    v = x[2][0] if x[0] == "call" else x
                    s = show(v)
                    m = re.search(r"(Small|Large)PeerMap::clean_and_get_num_peers\(.*\)\.(\d)$", s)
                    if m:
                        parts.append("%s.clean.%s" % (m.group(1), m.group(2)))
                    elif s == "Ip::version_char()":
                        parts.append("version")
                    elif re.fullmatch(r"display\(\(.*as Some\)\.0\.0\.0\)", s):
                        parts.append("info_hash")
                    else:
                        parts.append(s[:40])
                lines.add(tuple(parts))
                ne = [sym.atom_bool(a2) for a2 in p.atoms if a2["neff"] <= i]
                ne = [x for x in ne if x and strip_after(x[0])[0] == "bin" and strip_after(x[0])[1] == "Ne" and const_int(strip_after(x[0])[3]) == 0
                      and "clean_and_get_num_peers" in show(x[0])]
                if not (ne and ne[-1][1]):
                    guarded = False
    want = {("version", "info_hash", "Small.clean.0", "Small.clean.1"), ("version", "info_hash", "Large.clean.0", "Large.clean.1")}
    yield ob("R-C20-2", "content#line", lines == want and n > 0, b, None, "export line fields: %s" % sorted(lines), {"fields": sorted(map(list, lines))})
    yield ob("R-C20-2", "content#only_with_peers", guarded and n > 0, b, None, "every write is on the num_peers != 0 edge: %s" % guarded, {"writes": n})


@PROP.rule("R-C20-3", floor=5, doc="per-client tally messages: stored id on removal, request id on creation, both on an id change")
def tallies(fx):
    b = fx.fn(SW + "::PeerMap::announce")
    ps = [p for p in cpaths(fx, b) if p.end == "return"]
    removed_bad, added_bad, table_bad = set(), set(), set()
    n_msgs = 0
    for p in ps:
        rem = [e for e in p.calls(r"PeerMap::(remove|remove_peer)$")]
        rsite = rem[0][3] if rem else None
        msgs = []
        for e in p.calls(r"Sender.*::try_send$"):
            m = strip_after(e[2][1])
            if m[0] != "agg" or not m[1].endswith("StatisticsMessage"):
                continue
            n_msgs += 1
            payload = m[3][0][1]
            msgs.append(m[2])
            if m[2] == "PeerRemoved":
                from_removed = any(x[0] == "call" and x[3] == rsite for x in sym.walk(payload))
                if not from_removed or show(payload) == "request.peer_id":
                    removed_bad.add(show(payload)[:80])
            if m[2] == "PeerAdded" and show(payload) != "request.peer_id":
                added_bad.add(show(payload)[:80])
        on = [sym.atom_bool(a) for a in p.atoms]
        on = [x[1] for x in on if x and fp(strip_after(x[0])) == "config.statistics.peer_clients"]
        ins = len(p.calls(r"PeerMap::insert$"))
        had = None   # was an entry removed on this path?
        same = None  # does the path establish removed id == request id?
        for a in p.atoms:
            v = sym.atom_variant(fx, a)
            ab = sym.atom_bool(a)
            d = show(strip_after(a["discr"]))
            if v and rsite is not None and any(x[0] == "call" and x[3] == rsite for x in sym.walk(strip_after(v[0]))) and "try_shrink" not in d:
                if set(v[1]) <= {"Some", "None"}:
                    is_some = (v[2] and v[1] == ["Some"]) or (not v[2] and v[1] == ["None"])
                    had = is_some
            if ab and strip_after(ab[0])[0] == "call" and re.search(r"PartialEq(>)?::(ne|eq)$", strip_after(ab[0])[1]) and "request.peer_id" in d and "remove" in d:
                differs = ab[1] if strip_after(ab[0])[1].endswith("ne") else (not ab[1])
                same = not differs
        if not on or not on[-1]:
            if msgs:
                table_bad.add("messages although peer_clients is off: %s" % msgs)
            continue
        if ins == 0:
            # stopped: at most one PeerRemoved, and exactly one when an entry was removed
            if msgs not in ([], ["PeerRemoved"]) or (had is True and msgs != ["PeerRemoved"]) or (had is False and msgs):
                table_bad.add("stopped, removed=%s -> %s" % (had, msgs))
        else:
            if same is True:
                okm = msgs == []
            elif same is False:
                # whether an old entry existed must have been decided on the path (it may carry another id)
                okm = had is not None and ((had and msgs == ["PeerRemoved", "PeerAdded"]) or (not had and msgs == ["PeerAdded"]))
            else:
                okm = False
            if not okm:
                table_bad.add("insert, removed=%s, same_id=%s -> %s" % (had, same, msgs))
    yield ob("R-C20-3", "tally#announce#removed_id_is_stored_id", not removed_bad and n_msgs > 0, b, None,
             "PeerRemoved payloads not derived from the removed entry: %s" % sorted(removed_bad), {"messages": n_msgs})
    yield ob("R-C20-3", "tally#announce#added_id_is_request_id", not added_bad and n_msgs > 0, b, None, "PeerAdded payloads other than request.peer_id: %s" % sorted(added_bad), {})
    yield ob("R-C20-3", "tally#announce#message_table", not table_bad and n_msgs > 0, b, None,
             "message table deviations (entry created -> Added; destroyed -> Removed(stored id); id changed -> both; same id -> none): %s" % sorted(table_bad), {})
    # the id compared / reported for the removed peer is its peer_id field
    idc = [c for c in fx.children(b)]
    rets = set(show(strip_after(p.ret)) for c in idc for p in paths(fx, c) if p.end == "return")
    yield ob("R-C20-3", "tally#announce#removed_id_field", rets <= {"peer.peer_id"} and len(rets) == 1, b, None, "closure extracting the removed peer's id returns %s" % sorted(rets), trivial=True)
    # cleaners: one PeerRemoved(expired peer's id) per expired peer when peer_clients is on
    for rep in ("SmallPeerMap", "LargePeerMap"):
        pb = fx.fn(SW + "::%s::clean_and_get_num_peers" % rep)
        cb = [c for c in fx.children(pb)]
        rows = set()
        for c in cb:
            for p in cpaths(fx, c):
                if p.end != "return":
                    continue
                keep = [sym.atom_bool(a) for a in p.atoms]
                kv = [x[1] for x in keep if x and "ValidUntil::valid(" in show(x[0])]
                on = [x[1] for x in keep if x and "statistics.peer_clients" in show(x[0])]
                pushes = []
                for e in p.calls(r"Vec.*::push$"):
                    m = strip_after(e[2][1])
                    pushes.append("%s(%s)" % (m[2], show(m[3][0][1])) if m[0] == "agg" else show(m)[:30])
                rows.add((tuple(kv), tuple(on), tuple(pushes)))
        elem = "_2.1" if rep == "SmallPeerMap" else "peer"
        bad = [r for r in rows if (r[0] == (False,) and r[1] == (True,) and r[2] != ("PeerRemoved(%s.peer_id)" % elem,)) or (r[0] == (True,) and r[2]) or (r[1] == (False,) and r[2])]
        seen_rm = any(r[2] for r in rows)
        yield ob("R-C20-3", "tally#clean#%s" % rep, seen_rm and not bad, pb, None, "cleaner rows (keep, peer_clients, messages): %s" % sorted(rows), {"rows": sorted(map(str, rows))})
    # statistics worker: +1 on PeerAdded, -1 on PeerRemoved (CFG argument: the update is dominated by the arm's switch edge)
    w = fx.fn("aquatic_udp::workers::statistics::run_statistics_worker")
    a = fx.adt("aquatic_udp::common::StatisticsMessage")
    vnames = {int(v["discr"]): v["name"] for v in a["variants"]}
    switches = []
    for i, blk in enumerate(w.blocks):
        t = blk["term"]
        if t["k"] == "switch" and not blk["cleanup"]:
            # discriminant read of a StatisticsMessage
            for st in blk["stmts"]:
                if st["k"] == "assign" and "discr" in st["rv"] and "StatisticsMessage" in (w.local_ty(st["rv"]["discr"]["l"]) if "p" not in st["rv"]["discr"] else ""):
                    switches.append((i, t))
    deltas = set()
    for i, blk in enumerate(w.blocks):
        if blk["cleanup"]:
            continue
        for st in blk["stmts"]:
            if st["k"] == "assign" and "bin" in st["rv"] and st["rv"]["bin"] in ("AddWithOverflow", "SubWithOverflow") and st["rv"]["b"].get("c", {}).get("int") == 1:
                for si, t in switches:
                    for val, tgt in t["targets"]:
                        if w.cfg.edge_dominates((si, tgt), i) and vnames.get(val) in ("PeerAdded", "PeerRemoved"):
                            deltas.add((vnames[val], st["rv"]["bin"][:3]))
    yield ob("R-C20-3", "tally#worker_arithmetic", deltas == {("PeerAdded", "Add"), ("PeerRemoved", "Sub")}, w, None, "statistics worker count updates: %s" % sorted(deltas), {"updates": sorted(map(list, deltas))})


@PROP.rule("R-C20-4", floor=2, doc="totals only include what survives the pass (known finding: torrents dropped by the access list)")
def totals_survivors(fx):
    b = fx.fn(SW + "::TorrentMapShards::clean_and_get_statistics")
    # phase 1 adds each torrent's peers to total_num_peers; phase 2 may then drop the torrent because the access list forbids it.
    guarded = False
    adds = 0
    # the accumulator is whatever local ends up as the SECOND component of the returned tuple (not its source name)
    tl = []
    for i, si, st in b.assigns():
        if st["lhs"].get("l") == 0 and "p" not in st["lhs"] and st["rv"].get("agg", {}).get("tuple") and len(st["rv"].get("ops", [])) == 3:
            src = st["rv"]["ops"][1]
            l = (src.get("mv") or src.get("cp") or {}).get("l")
            seen = set()
            while l is not None and l not in seen:
                seen.add(l)
                defs = [s2 for _i, _si, s2 in b.assigns() if s2["lhs"].get("l") == l and "p" not in s2["lhs"]]
                copies = [d for d in defs if "use" in d["rv"] and ("mv" in d["rv"]["use"] or "cp" in d["rv"]["use"])]
                if len(defs) == 1 and copies:
                    u = copies[0]["rv"]["use"]
                    l = (u.get("mv") or u.get("cp") or {}).get("l")
                else:
                    break
            if l is not None:
                tl = [l]
    if not tl:
        tl = [l for l, n in b.debug_names.items() if n == "total_num_peers"]
    allows_edges = []
    for i, t in b.calls(r"AccessList::allows$"):
        sw = b.blocks[t["t"]]["term"] if t.get("t") is not None else None
        if sw and sw["k"] == "switch":
            allows_edges.append((t["t"], sw["otherwise"]))
    for i, si, st in b.assigns():
        if tl and st["lhs"].get("l") == tl[0] and "p" not in st["lhs"] and not ("use" in st["rv"] and "c" in st["rv"]["use"]):
            adds += 1
            if any(b.cfg.edge_dominates(e, i) for e in allows_edges):
                guarded = True
    yield ob("R-C20-4", "totals#udp#peers_of_forbidden_torrents", adds > 0 and guarded, b, None,
             ("peer total is accumulated in phase 1 on %d site(s), each on the true edge of AccessList::allows: peers of torrents that phase 2 drops as forbidden are not counted" % adds)
             if adds > 0 and guarded else
             ("peer total is accumulated in phase 1 on %d path-sites without consulting the access list, although phase 2 drops forbidden torrents: after a list reload the reported "
              "peer total exceeds what is stored (until the next pass)" % adds), {"sites": adds})
    # the export line of a torrent is written in the same loop: it must sit behind the same test
    wr = [i for i, t in b.calls(r"Write>::write_fmt$|::write_fmt$")]
    yield ob("R-C20-4", "export#udp#only_permitted_torrents", bool(wr) and all(any(b.cfg.edge_dominates(e, i) for e in allows_edges) for i in wr), b, None,
             "%d export write(s) in the cleaning loop, each on the true edge of AccessList::allows (a torrent dropped in this pass is not exported)" % len(wr), {"writes": len(wr)})
    # phase 2 drops a forbidden torrent with its peers without PeerRemoved messages
    clo = [c for c in fx.children(b) if any(True for _ in c.calls(r"AccessList::allows$"))]
    sends = False
    for c in clo:
        for p in sym.Evaluator(fx, c).run():
            neg = any((sym.atom_bool(a) or (None, None))[1] is False and "AccessList::allows" in show(a["discr"]) for a in p.atoms)
            if neg and (p.calls(r"Vec.*::push$") or p.calls(r"try_send$")):
                sends = True
    # repaired shape: on the forbidden edge of phase 1 the peers are removed by one call that announces every stored peer
    # (both representations) as PeerRemoved when peer_clients is on (whether the map is also emptied there does not matter:
    # phase 2 drops the torrent)
    emptier = None
    emptier_ok = False
    detail = ""
    if guarded:
        false_edges = []
        for i, t in b.calls(r"AccessList::allows$"):
            sw = b.blocks[t["t"]]["term"] if t.get("t") is not None else None
            if sw and sw["k"] == "switch":
                false_edges += [(t["t"], tgt) for val, tgt in sw["targets"] if val == 0]
        cands = set()
        for i, t in b.calls(r"^aquatic_udp::swarm::"):
            if any(b.cfg.edge_dominates(e, i) for e in false_edges):
                cands.add(strip_generics(callee_name(t)))
        cands = sorted(c for c in cands if fx.fn_opt(c) is not None)
        if len(cands) == 1:
            emptier = fx.fn(cands[0])
            arms = set()
            bad = []
            for p in cpaths(fx, emptier):
                if p.end != "return":
                    continue
                on = [sym.atom_bool(a) for a in p.atoms]
                on = [x for x in on if x and show(strip_after(x[0])) == "config.statistics.peer_clients"]
                if not on or on[0][1] is not True:
                    continue
                var = [sym.atom_variant(fx, a) for a in p.atoms]
                var = [v[1][0] for v in var if v and v[2] and show(strip_after(v[0])) == "self" and v[1]]
                entered = [sym.atom_variant(fx, a) for a in p.atoms]
                entered = [v for v in entered if v and v[2] and v[1] == ["Some"] and "Iterator>::next(" in show(v[0])]
                pushes = [show(strip_after(e[2][1])) for e in p.calls(r"Vec.*::push$")]
                if entered:
                    good = [x for x in pushes if x.startswith("StatisticsMessage::PeerRemoved{0: (") and x.endswith(".peer_id}") and "Iterator>::next(" in x
                            and "(self as %s)" % (var[0] if var else "?") in x]
                    if len(good) != len(entered) or len(pushes) != len(good):
                        bad.append("%s arm: %d element(s) visited, pushes %s" % (var[:1], len(entered), [x[:50] for x in pushes]))
                    elif var:
                        arms.add(var[0])
            emptier_ok = arms == {"Small", "Large"} and not bad
            detail = "%s: arms announcing every visited peer as PeerRemoved %s %s" % (emptier.short.split("::")[-1], sorted(arms), bad[:2])
        else:
            detail = "calls on the forbidden edge: %s" % cands
    yield ob("R-C20-4", "tally#udp#forbidden_torrent_peers_not_removed", sends or (guarded and emptier_ok), b, None,
             ("forbidden torrents lose their peers in phase 1 through " + detail) if guarded else
             "a torrent dropped because the access list forbids it vanishes with its peers but no PeerRemoved is emitted for them: per-client tallies stay too high", {})
    # torrent total = len of each shard after retain
    rets = set()
    for p in cpaths(fx, b):
        if p.end == "return":
            r = strip_after(p.ret)
            if r[0] == "tup":
                rets.add(re.sub(r"RwLock::write\(.*?\)\)\)", "SHARD)", show(r[1][0]))[:80])
    yield ob("R-C20-4", "totals#udp#torrents_after_retain", any("HashMap::len(" in x for x in rets) and all(x == "0:usize" or "HashMap::len(" in x for x in rets), b, None,
             "torrent total = %s" % sorted(rets), {"ret": sorted(rets)})


@PROP.rule("R-C20-5", floor=1, doc="totals are stored for both families after both passes, from what the passes returned")
def totals_store(fx):
    b = fx.fn(SW + "::TorrentMaps::clean_and_update_statistics")
    stores = set()
    okorder = True
    for p in cpaths(fx, b):
        cl = [i for i, e in enumerate(p.effects) if e[0] == "call" and e[1].endswith("TorrentMapShards::clean_and_get_statistics")]
        for i, e in enumerate(p.effects):
            if e[0] == "call" and re.search(r"atomic::Atomic\w*::store$", e[1]):
                tgt = fp(strip_after(e[2][0]))
                v = strip_after(e[2][1])
                src = None
                if v[0] == "f" and v[1][0] == "call" and v[1][1].endswith("clean_and_get_statistics"):
                    src = "%s.%s" % (fp(v[1][2][0]), v[2])
                stores.add((tgt, src))
                if len(cl) != 2 or i < max(cl):
                    okorder = False
    want = {("statistics.ipv4.torrents", "self.ipv4.0"), ("statistics.ipv6.torrents", "self.ipv6.0"),
            ("statistics.ipv4.peers", "self.ipv4.1"), ("statistics.ipv6.peers", "self.ipv6.1")}
    yield ob("R-C20-5", "totals#udp#stored", stores == want and okorder, b, None, "stores %s; after both passes: %s" % (sorted(stores, key=str), okorder), {"stores": sorted(map(list, stores), key=str)})
