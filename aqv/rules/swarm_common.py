"""Rules shared by the UDP (C01) and HTTP (C07) peer storage, which are near-clones: each obligation is
evaluated on both copies, so an asymmetric edit of one copy shows up as a deviation."""
import re

from aq import sym
from aq.sym import show, strip_after
from aq.util import (call_args, calls_in, const_int, cpaths, field_uses, fp, has_call, in_test_code, ob, paths, true_sets,
                     unwrap_origin, who_calls, norm_bool)

IMPL = {
    "udp": dict(crate="aquatic_udp", mod="aquatic_udp::swarm", announce="aquatic_udp::swarm::PeerMap::announce", enum="PeerMap",
                status_args=("<T as Into>::into(request.event)", "request.bytes_left"), stopped_test="eq", key_port="request.port",
                cap_const="aquatic_udp::swarm::SMALL_PEER_MAP_CAPACITY"),
    "http": dict(crate="aquatic_http", mod="aquatic_http::workers::swarm::storage",
                 announce="aquatic_http::workers::swarm::storage::TorrentData::upsert_peer_and_get_response_peers", enum="TorrentData",
                 status_args=("request.event", "request.bytes_left"), stopped_test="eq", key_port="request.port",
                 cap_const="aquatic_http::workers::swarm::storage::SMALL_PEER_MAP_CAPACITY"),
}


def status_table(fx, rid, tr):
    im = IMPL[tr]
    b = fx.fn(im["mod"] + "::PeerStatus::from_event_and_bytes_left")
    rows = set()
    for p in paths(fx, b):
        if p.end != "return":
            continue
        conds = []
        for a in p.atoms:
            v = sym.atom_variant(fx, a)
            ab = sym.atom_bool(a)
            if v:
                conds.append("%s %s %s" % (show(v[0]), "is" if v[2] else "is not", "|".join(v[1])))
            elif ab:
                x = strip_after(ab[0])
                if x[0] == "call" and "PartialEq" in x[1] and len(x[2]) == 2:
                    rhs = x[2][1]
                    if rhs[0] == "c" and rhs[2] == "promoted":
                        pb = fx.promoted(b, rhs[3])
                        pr = [q.ret for q in paths(fx, pb) if q.end == "return"]
                        rhs_s = show(pr[0]) if pr else "promoted"
                        rhs_s = re.sub(r"^AnnounceEvent::(\w+)\{\}$", r"\1", rhs_s)
                    else:
                        rhs_s = show(rhs)
                    conds.append("%s %s %s" % (show(x[2][0]), "is" if ab[1] else "is not", rhs_s.replace("AnnounceEvent::", "")))
                else:
                    n = norm_bool(ab[0], ab[1])
                    conds.append(" & ".join(sorted(n)) if n else sym.atom_text(fx, a))
            else:
                conds.append(sym.atom_text(fx, a))
        rows.add((tuple(conds), show(p.ret)))
    left = "I64::get(bytes_left.0)" if tr == "udp" else "bytes_left"
    zero = "0:i64" if tr == "udp" else "0:usize"
    want = {(("event is Stopped",), "PeerStatus::Stopped{}"),
            (("event is not Stopped", "Eq(%s, %s)" % tuple(sorted([left, zero], key=str)) if False else "Eq(%s, %s)" % tuple(sorted([zero, left])),), "PeerStatus::Seeding{}"),
            (("event is not Stopped", "Ne(%s, %s)" % tuple(sorted([zero, left])),), "PeerStatus::Leeching{}")}
    yield ob(rid, "status#%s#table" % tr, rows == want, b, None, "status table %s" % sorted(rows), {"table": sorted(map(str, rows))})


def seq_of(p, mod):
    out = []
    for i, e in enumerate(p.effects):
        if e[0] == "call" and e[1].startswith(mod + "::") and re.search(r"::(Small|Large)PeerMap::(remove|remove_peer|num_seeders_leechers|extract_response_peers|is_full|to_large|try_shrink|insert)$", e[1]):
            out.append((i, e[1].split("::")[-2][:5], e[1].split("::")[-1], e))
    return out


def status_of_path(fx, p):
    """Variant names allowed for `status` by the final `match status` on this path"""
    st = None
    for a in p.atoms:
        v = sym.atom_variant(fx, a)
        if v and show(strip_after(v[0])).startswith("PeerStatus::from_event_and_bytes_left("):
            st = ("in" if v[2] else "not", tuple(v[1]))
    return st


def announce_rules(fx, rid, tr):
    im = IMPL[tr]
    b = fx.fn(im["announce"])
    ps = [p for p in cpaths(fx, b) if p.end == "return"]
    KEY = "ResponsePeer::ResponsePeer{ip_address: ip_address, port: %s}" % im["key_port"]
    order_bad, key_bad, reply_bad, ins_bad, seeder_bad = [], [], [], [], []
    n_paths = 0
    arms = set()
    for p in ps:
        n_paths += 1
        seq = seq_of(p, im["mod"])
        names = [(s[1], s[2]) for s in seq]
        rem = [s for s in seq if s[2] in ("remove", "remove_peer")]
        cnt = [s for s in seq if s[2] == "num_seeders_leechers"]
        ext = [s for s in seq if s[2] == "extract_response_peers"]
        ins = [s for s in seq if s[2] == "insert"]
        if not (len(rem) == 1 and len(cnt) == 1 and len(ext) == 1):
            order_bad.append("calls %s" % names)
            continue
        arms.add(rem[0][1])
        if not (rem[0][0] < cnt[0][0] and rem[0][0] < ext[0][0] and all(ext[0][0] < i[0] and cnt[0][0] < i[0] for i in ins)):
            order_bad.append("order %s" % [n[1] for n in names])
        # all three operate on the same representation arm that was matched first
        if not (rem[0][1] == cnt[0][1] == ext[0][1]):
            order_bad.append("mixed arms %s" % names)
        if show(strip_after(rem[0][3][2][1])) != KEY:
            key_bad.append("remove(%s)" % show(strip_after(rem[0][3][2][1]))[:80])
        for i in ins:
            if show(strip_after(i[3][2][1])) != KEY:
                key_bad.append("insert(%s)" % show(strip_after(i[3][2][1]))[:80])
        # reply: counts from that num_seeders_leechers call (.0 seeders / .1 leechers), peers from that extract call
        r = strip_after(p.ret)
        cs, es = cnt[0][3][3], ext[0][3][3]
        if tr == "udp":
            fixed = None
            for x in sym.walk(r):
                if x[0] == "agg" and x[1].endswith("AnnounceResponseFixedData"):
                    fixed = dict(x[3])
            peers = dict(r[3]).get("peers") if r[0] == "agg" else None
            okr = fixed is not None and peers is not None and peers[0] == "call" and peers[3] == es
            if okr:
                for fname, idx in (("seeders", "0"), ("leechers", "1")):
                    o = [x for x in sym.walk(fixed[fname]) if x[0] == "f" and x[1][0] == "call" and x[1][3] == cs]
                    if not (len(o) == 1 and str(o[0][2]) == idx):
                        okr = False
                if show(fixed["transaction_id"]) != "request.transaction_id":
                    okr = False
        else:
            okr = r[0] == "tup" and len(r[1]) == 3
            if okr:
                inner = r[1]
                for pos, idx in ((0, "0"), (1, "1")):
                    x = inner[pos]
                    if not (x[0] == "f" and x[1][0] == "call" and x[1][3] == cs and str(x[2]) == idx):
                        okr = False
                if not (inner[2][0] == "call" and inner[2][3] == es):
                    okr = False
        if not okr:
            reply_bad.append(show(r)[:120])
        # insert count by status
        st = status_of_path(fx, p)
        if st is None:
            ins_bad.append("no status match on path")
            continue
        stopped = (st[0] == "in" and st[1] == ("Stopped",))
        if stopped and ins:
            ins_bad.append("insert on the Stopped arm")
        if not stopped and len(ins) != 1:
            ins_bad.append("%d inserts on a non-stopped path" % len(ins))
        for i in ins:
            peer = strip_after(i[3][2][2])
            if peer[0] != "agg" or not peer[1].endswith("::Peer"):
                seeder_bad.append("inserted value %s" % show(peer)[:60])
                continue
            sd = dict(peer[3]).get("is_seeder")
            s = show(sd)
            if not re.fullmatch(r"<PeerStatus as PartialEq>::eq\(PeerStatus::from_event_and_bytes_left\(.*\), promoted#\d+\)", s):
                seeder_bad.append("is_seeder = %s" % s[:80])
            else:
                pr = fx.promoted(b, int(re.search(r"promoted#(\d+)\)$", s).group(1)))
                pv = [show(q.ret) for q in paths(fx, pr) if q.end == "return"]
                if pv != ["PeerStatus::Seeding{}"]:
                    seeder_bad.append("is_seeder compares status with %s" % pv)
    yield ob(rid, "announce#%s#remove_before_reply_before_insert" % tr, n_paths > 0 and not order_bad and arms == {"Small", "Large"}, b, None,
             "%d paths, both representation arms %s; ordering problems: %s" % (n_paths, sorted(arms), sorted(set(order_bad))[:4]), {"paths": n_paths, "arms": sorted(arms)})
    yield ob(rid, "announce#%s#key" % tr, not key_bad and n_paths > 0, b, None,
             "remove/insert key must be %s; deviations: %s" % (KEY, sorted(set(key_bad))[:3]), {"key": KEY})
    yield ob(rid, "announce#%s#reply_origin" % tr, not reply_bad and n_paths > 0, b, None,
             "seeders/leechers/peers of the reply come from the post-removal num_seeders_leechers().0/.1 and extract_response_peers(); deviations: %s" % sorted(set(reply_bad))[:2], {})
    yield ob(rid, "announce#%s#insert_by_status" % tr, not ins_bad and n_paths > 0, b, None,
             "stopped -> no insert, otherwise exactly one; problems: %s" % sorted(set(ins_bad)), {})
    yield ob(rid, "announce#%s#is_seeder" % tr, not seeder_bad and n_paths > 0, b, None,
             "inserted Peer.is_seeder = (status == Seeding); problems: %s" % sorted(set(seeder_bad)), {})
    # status is computed from this request
    st = set()
    for p in ps:
        for e in p.calls(r"PeerStatus::from_event_and_bytes_left$"):
            st.add(tuple(show(strip_after(a)) for a in e[2]))
    yield ob(rid, "announce#%s#status_args" % tr, st == {im["status_args"]}, b, None, "status computed from %s" % sorted(st), {"args": sorted(map(list, st))})
    # Small -> Large conversion exactly when the small map is full and the peer will be inserted; Large -> Small only when it will not
    conv = set()
    for p in ps:
        full = [sym.atom_bool(a) for a in p.atoms]
        full = [x[1] for x in full if x and x[0][0] == "call" and x[0][1].endswith("SmallPeerMap::is_full")]
        ne = [sym.atom_bool(a) for a in p.atoms]
        wrote = [show(strip_after(e[2]))[:40] for e in p.effects if e[0] == "write" and show(e[1]) == "self"]
        seq = seq_of(p, im["mod"])
        if seq and seq[0][1] == "Small":
            stopped_test = [x for x in ne if x and x[0][0] == "call" and re.search(r"PartialEq(>)?::(ne|eq)$", x[0][1])
                            and "from_event_and_bytes_left" in show(x[0][2][0])]
            will_insert = None
            if stopped_test:
                x = stopped_test[0]
                will_insert = x[1] if x[0][1].endswith("::ne") else (not x[1])
            conv.add(("Small", tuple(full), will_insert, tuple(w.split("{")[0] for w in wrote)))
    want_conv = {("Small", (True,), True, ("%s::Large" % im["enum"],)), ("Small", (True,), False, ()), ("Small", (False,), None, ())}
    yield ob(rid, "announce#%s#grow_when_full" % tr, conv == want_conv, b, None,
             "(arm, is_full, status != Stopped, representation written): %s" % sorted(conv, key=str), {"rows": sorted(map(str, conv))})


def counter_rules(fx, rid, tr):
    im = IMPL[tr]
    M = im["mod"]
    b = fx.fn(M + "::LargePeerMap::insert")
    rows = set()
    for p in paths(fx, b):
        if p.end != "return":
            continue
        sd = [sym.atom_bool(a) for a in p.atoms]
        sd = tuple(x[1] for x in sd if x and fp(strip_after(x[0])) == "peer.is_seeder")
        ws = tuple(sorted(show(strip_after(e[2])) for e in p.effects if e[0] == "write" and e[5] and e[5][-1] == ("f", "num_seeders")))
        ins = tuple(sorted(" ".join(show(strip_after(a)) for a in e[2]) for e in p.calls(r"IndexMap.*::insert$")))
        rows.add((sd, ws, ins))
    want = {((True,), ("Add(self.num_seeders, 1:usize)",), ("self.peers key peer",)), ((False,), (), ("self.peers key peer",))}
    yield ob(rid, "counter#%s#insert" % tr, rows == want, b, None, "LargePeerMap::insert rows %s" % sorted(rows), {"rows": sorted(map(str, rows))})
    b = fx.fn(M + "::LargePeerMap::remove_peer")
    rows = set()
    for p in paths(fx, b):
        if p.end != "return":
            continue
        ws = tuple(sorted(show(strip_after(e[2])) for e in p.effects if e[0] == "write" and e[5] and e[5][-1] == ("f", "num_seeders")))
        at = []
        for a in p.atoms:
            v = sym.atom_variant(fx, a)
            ab = sym.atom_bool(a)
            if v:
                at.append("%s %s" % ("is" if v[2] else "is not", "|".join(v[1])))
            elif ab:
                at.append(("" if ab[1] else "!") + show(strip_after(ab[0])).split(").0.")[-1])
        rows.add((tuple(at), ws, show(strip_after(p.ret))))
    R = "IndexMap::swap_remove(self.peers, key)"
    want = {(("is not Some",), (), R), (("is Some", "is_seeder"), ("Sub(self.num_seeders, 1:usize)",), R), (("is Some", "!is_seeder"), (), R)}
    yield ob(rid, "counter#%s#remove_peer" % tr, rows == want, b, None, "LargePeerMap::remove_peer rows %s" % sorted(rows), {"rows": sorted(map(str, rows))})
    # cleaning closure decrements exactly for expired seeders
    pb = fx.fn(M + "::LargePeerMap::clean_and_get_num_peers")
    cb = None
    for line, callee, args in call_args(fx, pb, r"IndexMap.*::retain$"):
        if args[1][0] == "clo":
            cb = fx.bodies.get(args[1][1])
    rows = set()
    if cb is not None:
        for p in cpaths(fx, cb):
            if p.end != "return":
                continue
            at = set()
            for a in p.atoms:
                ab = sym.atom_bool(a)
                if ab:
                    n = norm_bool(ab[0], ab[1])
                    for s in (n if n is not None else {("" if ab[1] else "!") + show(strip_after(ab[0]))}):
                        if "statistics" not in s:
                            at.add(s)
            d = 0
            for e in p.effects:
                if e[0] == "write":
                    v = strip_after(e[2])
                    if v[0] == "bin" and v[1] in ("Add", "Sub") and const_int(v[3]) == 1 and "num_seeders" in show(v[2]):
                        d += 1 if v[1] == "Add" else -1
            rows.add((frozenset(at), d))
    keep = "ValidUntil::valid(peer.valid_until, now)"
    dec = set(r for r in rows if r[1] != 0)
    okc = dec == {(frozenset({"!" + keep, "peer.is_seeder"}), -1)} and len(rows) >= 2
    yield ob(rid, "counter#%s#clean_closure" % tr, okc, cb or pb, None,
             "num_seeders changes in the retain closure: %s" % sorted((sorted(r[0]), r[1]) for r in rows), {"rows": sorted(str((sorted(r[0]), r[1])) for r in rows)})
    # closed world: writers of num_seeders and mutators of the large map's `peers`
    wr = sorted(set(bb.short.replace(M + "::", "") for bb, l, k in field_uses(fx, re.escape(M) + r"::LargePeerMap$", "num_seeders", crates=[im["crate"]]) if k == "write" and not in_test_code(bb)))
    want_w = ["LargePeerMap::clean_and_get_num_peers", "LargePeerMap::insert", "LargePeerMap::remove_peer"]
    yield ob(rid, "counter#%s#who_writes_num_seeders" % tr, wr == want_w, None, None, "num_seeders written in %s" % wr, {"writers": wr})
    muts = {}
    for bb in fx.fns(r"^" + re.escape(M) + "::", crates=[im["crate"]]):
        if in_test_code(bb) or bb.kind == "promoted":
            continue
        for p in cpaths(fx, bb)[:300]:
            for e in p.effects:
                if e[0] == "call" and re.search(r"indexmap::.*::(entry|insert|insert_full|swap_remove|shift_remove|retain|pop|clear|drain|extend|get_mut|get_index_mut|remove|truncate|swap_remove_index|iter_mut|values_mut|sort\w*|reverse|shrink_to_fit|swap_indices|move_index)$", e[1]):
                    recv = fp(strip_after(e[2][0])) if e[2] else ""
                    if recv == "self.peers":
                        muts.setdefault(bb.short.replace(M + "::", ""), set()).add(e[1].split("::")[-1])
    want_m = {"LargePeerMap::insert": {"insert"}, "LargePeerMap::remove_peer": {"swap_remove"}, "LargePeerMap::clean_and_get_num_peers": {"retain", "shrink_to_fit"}}
    yield ob(rid, "counter#%s#who_mutates_peers" % tr, muts == want_m, None, None, "large map mutators: %s" % {k: sorted(v) for k, v in sorted(muts.items())},
             {"mutators": {k: sorted(v) for k, v in sorted(muts.items())}})
    # the same closed world by place instead of by receiver name: whoever takes `&mut <LargePeerMap>.peers` (through self, a local,
    # a freshly converted map ...) can change membership behind the counter's back
    mb = sorted(set(bb.short.replace(M + "::", "") for bb, l, k in field_uses(fx, re.escape(M) + r"::LargePeerMap$", "peers", crates=[im["crate"]])
                    if k == "write" and not in_test_code(bb)))
    yield ob(rid, "counter#%s#who_borrows_peers_mutably" % tr, bool(mb) and set(mb) <= set(want_m), None, None,
             "functions taking a mutable reference to LargePeerMap.peers: %s" % mb, {"functions": mb})
    # accessors
    b = fx.fn(M + "::LargePeerMap::num_seeders_leechers")
    r = [show(p.ret) for p in paths(fx, b) if p.end == "return"]
    yield ob(rid, "counter#%s#large_accessor" % tr, r == ["(self.num_seeders, Sub(IndexMap::len(self.peers), self.num_seeders))"], b, None, "LargePeerMap::num_seeders_leechers = %s" % r, {"table": r})
    b = fx.fn(M + "::SmallPeerMap::num_seeders_leechers")
    r = [show(p.ret) for p in paths(fx, b) if p.end == "return"]
    want_r = "(<Filter as Iterator>::count(Iterator::filter(<impl [T]>::iter(self.0), CLO)), Sub(ArrayVec::len(self.0), <Filter as Iterator>::count(Iterator::filter(<impl [T]>::iter(self.0), CLO))))"
    rr = [re.sub(r"closure<[^>]*(>::[a-z_]+::\{closure#\d+\})?>\(\)", "CLO", x) for x in r]
    rr = [re.sub(r"closure<.*?\{closure#0\}>\(\)", "CLO", x) for x in rr]
    fb = fx.fn(M + "::SmallPeerMap::num_seeders_leechers::{closure#0}")
    fr = [show(p.ret) for p in paths(fx, fb) if p.end == "return"]
    yield ob(rid, "counter#%s#small_accessor" % tr, rr == [want_r] and fr == ["_2.1.is_seeder"], b, None,
             "SmallPeerMap::num_seeders_leechers = %s filtering on %s" % (rr, fr), {"table": rr, "filter": fr})


def switch_rules(fx, rid, tr):
    im = IMPL[tr]
    M = im["mod"]
    cap = fx.const_int(im["cap_const"])
    small = fx.adt(M + "::SmallPeerMap")
    fty = small["variants"][0]["fields"][0]["ty"]
    m = re.search(r", (\d+|[A-Za-z_:]*SMALL_PEER_MAP_CAPACITY)>$", fty)
    tcap = m.group(1) if m else None
    yield ob(rid, "switch#%s#capacity" % tr, tcap is not None and (tcap == str(cap) or tcap.endswith("SMALL_PEER_MAP_CAPACITY")), None, None,
             "SmallPeerMap storage %s; SMALL_PEER_MAP_CAPACITY = %d" % (fty[-60:], cap), {"capacity": cap, "type": fty[-60:]})
    b = fx.fn(M + "::SmallPeerMap::to_large")
    r = [show(strip_after(p.ret)) for p in paths(fx, b) if p.end == "return"]
    want = "LargePeerMap::LargePeerMap{peers: Iterator::collect(Iterator::copied(<impl [T]>::iter(self.0))), num_seeders: SmallPeerMap::num_seeders_leechers(self).0}"
    yield ob(rid, "switch#%s#to_large" % tr, r == [want], b, None, "to_large() = %s" % r, {"table": r})
    b = fx.fn(M + "::LargePeerMap::try_shrink")
    r = [strip_after(p.ret) for p in paths(fx, b) if p.end == "return"]
    okt = len(r) == 1 and r[0][0] == "call" and r[0][1].endswith("bool>::then")
    guard = show(r[0][2][0]) if okt else None
    okt = okt and guard == "Le(IndexMap::len(self.peers), %d:usize)" % cap
    cb = fx.fn(M + "::LargePeerMap::try_shrink::{closure#0}")
    cr = [show(strip_after(p.ret)) for p in cpaths(fx, cb) if p.end == "return"]
    cr = [re.sub(r"closure<.*?>\(\)", "CLO", x) for x in cr]
    want_c = "SmallPeerMap::SmallPeerMap{0: <ArrayVec as FromIterator>::from_iter(Iterator::map(IndexMap::iter(self.peers), CLO))}"
    ib = fx.fn(M + "::LargePeerMap::try_shrink::{closure#0}::{closure#0}")
    ir = [show(strip_after(p.ret)) for p in paths(fx, ib) if p.end == "return"]
    yield ob(rid, "switch#%s#try_shrink" % tr, okt and cr == [want_c] and ir == ["(_2.0, _2.1)"], b, None,
             "try_shrink() = then(%s, || %s) mapping %s" % (guard, cr, ir), {"guard": guard, "body": cr})
    # no iterator adapter that could lose entries
    lossy = []
    for fn in ("::SmallPeerMap::to_large", "::LargePeerMap::try_shrink", "::LargePeerMap::try_shrink::{closure#0}"):
        for i, t in fx.fn(M + fn).calls(r"Iterator::(take|skip|filter|filter_map|step_by|take_while|skip_while|rev)$"):
            lossy.append((fn, t["line"]))
    yield ob(rid, "switch#%s#lossless" % tr, not lossy, None, None, "lossy iterator adapters in the conversions: %s" % lossy, trivial=True)


def accessor_sibling_rules(fx, rid, tr):
    """scrape and announce read the counters through the same accessor for both representations"""
    im = IMPL[tr]
    M = im["mod"]
    b = fx.fn(M + "::%s::scrape_statistics" % im["enum"])
    rows = set()
    for p in paths(fx, b):
        if p.end != "return":
            continue
        v = [sym.atom_variant(fx, a) for a in p.atoms]
        arm = [x[1][0] for x in v if x and x[2] and fp(x[0]) == "self"]
        r = strip_after(p.ret)
        f = dict(r[3]) if r[0] == "agg" else {}
        def src(e):
            o = [x for x in sym.walk(e) if x[0] == "f" and x[1][0] == "call" and x[1][1].endswith("PeerMap::num_seeders_leechers")]
            return "%s.%s" % (o[0][1][1].split("::")[-2], o[0][2]) if len(o) == 1 else show(e)[:40]
        sk, lk = ("seeders", "leechers") if tr == "udp" else ("complete", "incomplete")
        rows.add((arm[0] if arm else "?", src(f.get(sk, ("u", 0))), src(f.get(lk, ("u", 0)))))
    want = {("Small", "SmallPeerMap.0", "SmallPeerMap.1"), ("Large", "LargePeerMap.0", "LargePeerMap.1")}
    yield ob(rid, "scrape#%s#accessors" % tr, rows == want, b, None, "scrape_statistics rows (arm, seeders from, leechers from): %s" % sorted(rows), {"rows": sorted(map(str, rows))})
