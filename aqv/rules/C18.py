"""C18 - every reply the tracker computes fits its buffers (or the configuration is refused at start-up)."""
import re

from aq import sym
from aq.core import Property
from aq.facts import AnchorMissing
from aq.sym import show, strip_after
from aq.util import (call_args, calls_in, const_int, const_str, cpaths, fp, has_call, in_test_code, ob, ok_paths, paths,
                     unit_layout, unwrap_origin, who_calls, writer_tokens, norm_bool)

PROP = Property(
    "C18", "other",
    "Worst-case reply sizes are derived from the code as linear forms (rustc layouts for the UDP images, the "
    "abstract output stream of the HTTP bencode writers with 20 digits per usize) and compared with the buffer "
    "constants; a parameter that its type does not bound must be bounded by a start-up validation that "
    "dominates the first worker spawn, whose inequality is extracted as a linear form and solved for the "
    "largest accepted value.",
    ["aqfacts MIR extraction", "rustc layout computation", "itoa prints at most 20 digits for a usize"],
    ["OS-level short writes are outside the property's quantifier", "HTTP request-side bound assumes one `info_hash=<20 chars>&` needs 31 bytes"],
)


# ---- linear forms -------------------------------------------------------------------

def lin(fx, e, p, syms):
    """expr -> (const, {symbol: coeff}) or None. p = path (for size_of targs)."""
    e = strip_after(e)
    k = e[0]
    if k == "c" and e[2] == "int":
        return (e[3], {})
    if k == "cast":
        return lin(fx, e[3], p, syms)
    if k in ("f", "p", "up"):
        s = fp(e)
        for name in syms:
            if s.endswith(name):
                return (0, {name: 1})
        return None
    if k == "call":
        n = e[1]
        if re.search(r"mem::size_of$", n):
            t = p.call_term(e[3])
            ty = t["f"]["args"][0] if t else None
            prim = {"i8": 1, "u8": 1, "i16": 2, "u16": 2, "i32": 4, "u32": 4, "i64": 8, "u64": 8, "usize": 8, "isize": 8, "i128": 16, "u128": 16}
            if ty in prim:
                return (prim[ty], {})
            try:
                return (fx.layout(ty)["size"], {})
            except AnchorMissing:
                return None
        if re.search(r"::(saturating_mul|wrapping_mul)$", n) and len(e[2]) == 2:
            return lmul(lin(fx, e[2][0], p, syms), lin(fx, e[2][1], p, syms))
        if re.search(r"::(saturating_add|wrapping_add)$", n) and len(e[2]) == 2:
            return ladd(lin(fx, e[2][0], p, syms), lin(fx, e[2][1], p, syms))
        if re.search(r"Into>::into$|From.*::from$|::len$", n) and len(e[2]) == 1:
            if n.endswith("::len"):
                x = strip_after(e[2][0])
                if x[0] == "c" and x[2] in ("bytes", "str"):
                    return (len(bytes.fromhex(x[3])) if x[2] == "bytes" else len(x[3]), {})
                return None
            return lin(fx, e[2][0], p, syms)
        return None
    if k == "bin" and e[1] == "Div":
        # a limit computed the other way round: (buffer - base) / per_element, all constants
        a, b = lin(fx, e[2], p, syms), lin(fx, e[3], p, syms)
        if a is not None and b is not None and not a[1] and not b[1] and b[0] > 0:
            return (a[0] // b[0], {})
        return None
    if k == "bin" and e[1] in ("Add", "Sub", "Mul"):
        a, b = lin(fx, e[2], p, syms), lin(fx, e[3], p, syms)
        if e[1] == "Add":
            return ladd(a, b)
        if e[1] == "Sub":
            return ladd(a, lmul(b, (-1, {})))
        return lmul(a, b)
    return None


U64 = 2 ** 64 - 1
WRAPS = {}   # (crate, config field, backend) -> list of arithmetic sites of the accepted comparison that can wrap


def range_max(fx, e, p, symmax, sites):
    """Largest value the usize expression can take when each named config field ranges over its whole type; every plain
    (or wrapping) + / * whose exact result can exceed usize::MAX is appended to `sites` - in release builds it wraps
    silently, and the validation would then accept what it is meant to refuse.  saturating_* cannot wrap."""
    e = strip_after(e)
    k = e[0]
    if k == "c" and e[2] == "int":
        return e[3]
    if k == "cast":
        return range_max(fx, e[3], p, symmax, sites)
    if k in ("f", "p", "up"):
        s = fp(e)
        for name, m in symmax.items():
            if s.endswith(name):
                return m
        return U64
    if k == "call":
        n = e[1]
        l0 = lin(fx, e, p, [])
        if l0 is not None and not l0[1]:
            return l0[0]
        two = len(e[2]) == 2
        if two and re.search(r"::(saturating|wrapping)_(mul|add)$", n):
            a, b = range_max(fx, e[2][0], p, symmax, sites), range_max(fx, e[2][1], p, symmax, sites)
            v = a * b if n.endswith("mul") else a + b
            if "wrapping" in n and v > U64:
                sites.append(show(e)[:90])
            return min(v, U64)
        if re.search(r"Into>::into$|From.*::from$", n) and len(e[2]) == 1:
            return range_max(fx, e[2][0], p, symmax, sites)
        return U64
    if k == "bin" and e[1] in ("Add", "Mul"):
        a, b = range_max(fx, e[2], p, symmax, sites), range_max(fx, e[3], p, symmax, sites)
        v = a + b if e[1] == "Add" else a * b
        if v > U64:
            sites.append("%s of up to %d and %d: %s" % (e[1], a, b, show(e)[:70]))
        return min(v, U64)
    if k == "bin" and e[1] == "Sub":
        return range_max(fx, e[2], p, symmax, sites)
    return U64


def ladd(a, b):
    if a is None or b is None:
        return None
    d = dict(a[1])
    for k, v in b[1].items():
        d[k] = d.get(k, 0) + v
    return (a[0] + b[0], d)


def lmul(a, b):
    if a is None or b is None:
        return None
    if a[1] and b[1]:
        return None
    if not a[1]:
        a, b = b, a
    return (a[0] * b[0], {k: v * b[0] for k, v in a[1].items()})


def validation_bound(fx, crate, sym_name, backend=None):
    """Largest value of config.protocol.<sym_name> accepted by the start-up validation of `crate`, or None.
    Validation = a comparison over that field whose failing edge returns Err, in run() or a function run() calls
    (result `?`-propagated) before the first thread is spawned."""
    run = fx.fn(crate + "::run")
    cands = [run]
    for i, t in run.calls(r"^%s::" % crate):
        from aq.facts import callee_name, strip_generics
        b = fx.fn_opt(strip_generics(callee_name(t)))
        if b is not None and b not in cands and b.kind in ("fn", "method"):
            # must be called before any spawn
            spawn_blocks = [j for j, tt in run.calls(r"thread::Builder::spawn$|thread::spawn$")]
            tried = False
            for rp in cpaths(fx, run):
                for a in rp.atoms:
                    d = a["discr"]
                    if d[0] == "discr" and d[1][0] == "try" and has_call(d[1], re.escape(b.short) + "$"):
                        tried = True
                        break
                if tried:
                    break
            if all(run.cfg.block_dominates(i, j) for j in spawn_blocks) and tried:
                cands.append(b)
    best = None
    where = None
    for b in cands:
        for p in cpaths(fx, b):
            if p.end != "return":
                continue
            r = strip_after(p.ret)
            is_err = (r[0] == "agg" and r[2] == "Err") or has_call(r, r"from_residual$")
            if not is_err:
                continue
            if backend is not None:
                ur = [sym.atom_bool(a) for a in p.atoms]
                ur = [x[1] for x in ur if x and fp(strip_after(x[0])).endswith("network.use_io_uring")]
                if ur and ur[-1] != (backend == "uring"):
                    continue
                if not ur and backend == "uring" and b is not run:
                    pass
            for a in p.atoms:
                ab = sym.atom_bool(a)
                if not ab:
                    continue
                x = strip_after(ab[0])
                if x[0] != "bin" or x[1] not in ("Gt", "Ge", "Lt", "Le"):
                    continue
                if sym_name not in show(x):
                    continue
                l, rr = lin(fx, x[2], p, [sym_name]), lin(fx, x[3], p, [sym_name])
                if l is None or rr is None:
                    continue
                # normalise to: refuse iff  c0 + c1*param  OP  0
                d = ladd(l, lmul(rr, (-1, {})))
                c0, c1 = d[0], d[1].get(sym_name, 0)
                op = x[1] if ab[1] else {"Gt": "Le", "Le": "Gt", "Ge": "Lt", "Lt": "Ge"}[x[1]]
                if c1 == 0:
                    continue
                # refuse iff c0 + c1*v OP 0 ; accepted values are the complement; want max accepted v (c1>0, OP in Gt/Ge)
                if c1 > 0 and op in ("Gt", "Ge"):
                    vmax = (-c0) // c1 if op == "Gt" else (-c0 - 1) // c1
                    if b is run:
                        # comparison inside run() itself must dominate the spawns
                        spawn_blocks = [j for j, tt in run.calls(r"thread::Builder::spawn$|thread::spawn$")]
                        if not all(run.cfg.block_dominates(a["block"], j) for j in spawn_blocks):
                            continue
                    if best is None or vmax < best:
                        best, where = vmax, "%s: refuse iff %s" % (b.short.split("::", 1)[1], show(x)[:160])
                        sites = []
                        tmax = {"u8": 255, "u16": 65535, "u32": 2 ** 32 - 1}.get(field_type(fx, crate, sym_name), U64)
                        range_max(fx, x[2], p, {sym_name: tmax}, sites)
                        range_max(fx, x[3], p, {sym_name: tmax}, sites)
                        WRAPS[(crate, sym_name, backend)] = sorted(set(sites))
    return best, where


def default_of(fx, crate, field):
    b = fx.fn("<%s::config::ProtocolConfig as std::default::Default>::default" % crate)
    for p in cpaths(fx, b):
        if p.end == "return":
            r = strip_after(p.ret)
            if r[0] == "agg":
                v = dict(r[3]).get(field)
                return const_int(v) if v else None
    return None


def field_type(fx, crate, field):
    a = fx.adt("%s::config::ProtocolConfig" % crate)
    return [f["ty"] for f in a["variants"][0]["fields"] if f["name"] == field][0]


TYPE_MAX = {"u8": 255, "u16": 65535}


def tok_size(t):
    if t[0] == "lit":
        return len(t[1])
    if t[0] == "fixed":
        return t[1]
    if t[0] == "bytes" and "Buffer::format(" in show(t[1]):
        return 20  # itoa of a 64-bit integer
    return None


def http_stream_forms(fx):
    """(announce base, per ipv4 peer, per ipv6 peer), (scrape base, per file) from the writers' abstract output streams"""
    b = fx.fn("aquatic_http_protocol::response::AnnounceResponse::write_bytes")
    sizes = {}
    for p in ok_paths([q for q in cpaths(fx, b) if q.end == "return"]):
        toks = writer_tokens(fx, p, b)
        if any(t[0] == "lit" and b"warning" in t[1] for t in toks):
            continue
        n4 = sum(1 for t in toks if t[0] == "fixed" and t[1] == 4)
        n6 = sum(1 for t in toks if t[0] == "fixed" and t[1] == 16)
        sz = [tok_size(t) for t in toks]
        if None in sz:
            continue
        sizes[(n4, n6)] = sum(sz)
    ann = None
    if all(k in sizes for k in ((0, 0), (1, 0), (0, 1))):
        ann = (sizes[(0, 0)], sizes[(1, 0)] - sizes[(0, 0)], sizes[(0, 1)] - sizes[(0, 0)])
    b = fx.fn("aquatic_http_protocol::response::ScrapeResponse::write_bytes")
    sizes = {}
    for p in ok_paths([q for q in cpaths(fx, b) if q.end == "return"]):
        toks = writer_tokens(fx, p, b)
        n = sum(1 for t in toks if t[0] == "fixed" and t[1] == 20)
        sz = [tok_size(t) for t in toks]
        if None not in sz:
            sizes[n] = sum(sz)
    scr = (sizes[0], sizes[1] - sizes[0]) if 0 in sizes and 1 in sizes else None
    return ann, scr


def fit(rule, key, what, base, per, pname, pmax, pwhy, cap, capwhy, body=None):
    if pmax is None:
        return ob(rule, key, False, body, None,
                  "%s = %d + %d x %s bytes, buffer %s = %d bytes: %s is not bounded by its type and no start-up validation refuses large values (%s)"
                  % (what, base, per, pname, capwhy, cap, pname, pwhy), {"base": base, "per_item": per, "capacity": cap, "bound": None})
    w = base + per * pmax
    return ob(rule, key, w <= cap, body, None,
              "%s = %d + %d x %s <= %d + %d x %d = %d bytes (%s); buffer %s = %d bytes"
              % (what, base, per, pname, base, per, pmax, w, pwhy, capwhy, cap), {"base": base, "per_item": per, "bound": pmax, "worst": w, "capacity": cap})


@PROP.rule("R-C18-udp", floor=8, doc="UDP replies fit the send buffer of both back ends for every accepted configuration")
def udp(fx):
    U = "aquatic_udp_protocol.lib"
    fixed = unit_layout(fx, U, "AnnounceResponseFixedData")["size"]
    peer6 = unit_layout(fx, U, "ResponsePeer", "Ipv6AddrBytes")["size"]
    peer4 = unit_layout(fx, U, "ResponsePeer", "Ipv4AddrBytes")["size"]
    stat = unit_layout(fx, U, "TorrentScrapeStatistics")["size"]
    txid = unit_layout(fx, U, "TransactionId")["size"]
    caps = {"mio": (fx.const_int("aquatic_udp::common::BUFFER_SIZE"), "BUFFER_SIZE"),
            "uring": (fx.const_int("aquatic_udp::workers::socket::uring::RESPONSE_BUF_LEN"), "RESPONSE_BUF_LEN")}
    # the buffers really have those sizes
    mio_t = [l["ty"] for l in fx.fn("aquatic_udp::workers::socket::mio::run").locals]
    yield ob("R-C18-udp", "buffer#udp#mio", "[u8; %d]" % caps["mio"][0] in mio_t, None, None, "mio send/recv buffer is [u8; BUFFER_SIZE=%d]" % caps["mio"][0], trivial=True)
    sb = fx.adt("aquatic_udp::workers::socket::uring::send_buffers::SendBuffer")
    bt = [f["ty"] for f in sb["variants"][0]["fields"] if f["name"] == "bytes"]
    yield ob("R-C18-udp", "buffer#udp#uring", bt in (["[u8; %d]" % caps["uring"][0]], ["[u8; RESPONSE_BUF_LEN]"],
                                                      ["[u8; aquatic_udp::workers::socket::uring::RESPONSE_BUF_LEN]"]), None, None,
             "uring SendBuffer.bytes is %s" % bt, trivial=True)
    tp = TYPE_MAX.get(field_type(fx, "aquatic_udp", "max_response_peers"))
    ts = TYPE_MAX.get(field_type(fx, "aquatic_udp", "max_scrape_torrents"))
    dp = default_of(fx, "aquatic_udp", "max_response_peers")
    ds = default_of(fx, "aquatic_udp", "max_scrape_torrents")
    for be, (cap, capn) in caps.items():
        vp, vpw = validation_bound(fx, "aquatic_udp", "max_response_peers", be)
        vs, vsw = validation_bound(fx, "aquatic_udp", "max_scrape_torrents", be)
        pm = min([x for x in (vp, tp) if x is not None], default=None)
        sm = min([x for x in (vs, ts) if x is not None], default=None)
        yield fit("R-C18-udp", "fit#udp#%s#announce" % be, "announce reply (IPv6)", 4 + fixed, max(peer4, peer6), "max_response_peers", pm,
                  vpw or "usize, validation: none", cap, capn)
        yield fit("R-C18-udp", "fit#udp#%s#scrape" % be, "scrape reply", 4 + txid, stat, "max_scrape_torrents", sm,
                  ("u8" if sm == ts else vsw) or "none", cap, capn)
        for fld, v in (("max_response_peers", vp), ("max_scrape_torrents", vs)):
            w = WRAPS.get(("aquatic_udp", fld, be))
            if v is not None and w is not None:
                yield ob("R-C18-udp", "validate#udp#%s#%s#cannot_wrap" % (be, fld), not w, None, None,
                         "arithmetic of the start-up test over the whole range of the field's type: %s" % (w or "no + or * can exceed usize::MAX (saturating where needed)"), {"wrapping_sites": w})
        yield ob("R-C18-udp", "default#udp#%s#announce" % be, dp is not None and 4 + fixed + max(peer4, peer6) * dp <= cap, None, None,
                 "default max_response_peers=%s -> %s bytes <= %d" % (dp, 4 + fixed + max(peer4, peer6) * (dp or 0), cap), {"default": dp})
        yield ob("R-C18-udp", "default#udp#%s#scrape" % be, ds is not None and 4 + txid + stat * ds <= cap, None, None,
                 "default max_scrape_torrents=%s -> %s bytes <= %d" % (ds, 4 + txid + stat * (ds or 0), cap), {"default": ds})
    # error replies: static messages only
    msgs = set()
    for fn in ("aquatic_udp::workers::socket::mio::WorkerSharedData::handle_request", "aquatic_udp::workers::socket::uring::SocketWorker::handle_request",
               "aquatic_udp_protocol::request::Request::parse_bytes"):
        b = fx.fn(fn)
        for blk in b.blocks:
            t = blk["term"]
            if t["k"] == "call":
                for o in t["ops"]:
                    c = o.get("c")
                    if c and "str" in c:
                        msgs.add(c["str"])
    longest = max((len(m) for m in msgs), default=0)
    yield ob("R-C18-udp", "fit#udp#error", 4 + txid + longest <= min(c[0] for c in caps.values()) and longest > 0, None, None,
             "longest static error text %d bytes -> reply %d bytes" % (longest, 4 + txid + longest), {"messages": sorted(msgs)})


@PROP.rule("R-C18-udp-recv", floor=4, doc="UDP receive side: buffers hold every request the default configuration accepts")
def udp_recv(fx):
    ds = default_of(fx, "aquatic_udp", "max_scrape_torrents")
    ih = unit_layout(fx, "aquatic_udp_protocol.lib", "InfoHash")["size"]
    ar = unit_layout(fx, "aquatic_udp_protocol.lib", "AnnounceRequest")["size"]
    need = max(16 + ih * (ds or 0), ar)
    mio = fx.const_int("aquatic_udp::common::BUFFER_SIZE")
    yield ob("R-C18-udp-recv", "recv#udp#mio", need <= mio, None, None,
             "largest request accepted whole under the default config: scrape with %s hashes = %d bytes <= BUFFER_SIZE %d" % (ds, need, mio), {"need": need, "buffer": mio})
    ur = fx.const_int("aquatic_udp::workers::socket::uring::REQUEST_BUF_LEN")
    # recvmsg multishot buffer also carries io_uring_recvmsg_out (16 bytes) and the source name (sockaddr_in6 = 28 bytes)
    overhead = 16 + 28
    yield ob("R-C18-udp-recv", "recv#udp#uring#announce", ar + overhead <= ur, None, None,
             "io_uring REQUEST_BUF_LEN = %d holds recvmsg header + name + an announce request (%d bytes)" % (ur, ar + overhead), {"need": ar + overhead, "buffer": ur})
    sc1 = 16 + ih
    yield ob("R-C18-udp-recv", "recv#udp#uring#small_scrape", sc1 + overhead <= ur and 16 + overhead <= ur, None, None,
             "io_uring REQUEST_BUF_LEN = %d holds a connect request and a one-hash scrape (%d bytes)" % (ur, sc1 + overhead), {"need": sc1 + overhead, "buffer": ur})
    yield ob("R-C18-udp-recv", "recv#udp#uring", need + overhead <= ur, None, None,
             "io_uring REQUEST_BUF_LEN = %d must hold recvmsg header 16 + sockaddr_in6 28 + a scrape request with the default max_scrape_torrents=%s hashes (%d bytes) = %d bytes; "
             "larger datagrams are truncated by the kernel and dropped without a reply" % (ur, ds, need, need + overhead), {"need": need + overhead, "buffer": ur})


@PROP.rule("R-C18-http", floor=6, doc="HTTP replies fit the response buffer for every accepted configuration")
def http(fx):
    ann, scr = http_stream_forms(fx)
    if ann is None or scr is None:
        yield ob("R-C18-http", "stream#http", False, None, None, "could not derive the writers' size forms (announce %s, scrape %s)" % (ann, scr))
        return
    yield ob("R-C18-http", "stream#http", ann[1] == 6 and ann[2] == 18 and scr[1] >= 68, None, None,
             "announce body <= %d + 6 x ipv4 peers + 18 x ipv6 peers; scrape body <= %d + %d x files (20 digits per count)" % (ann[0], scr[0], scr[1]),
             {"announce": list(ann), "scrape": list(scr)})
    C = "aquatic_http::workers::socket::connection"
    cap_total = fx.const_int(C + "::RESPONSE_BUFFER_SIZE")
    hdr = sum(len(bytes.fromhex(fx.const(C + "::RESPONSE_HEADER_" + x)["bytes"])) for x in "ABC")
    # trailer: the constant added to `position` in the fullness test of write_response
    wb = fx.fn(C + "::Connection::write_response::{closure#0}")
    trailer = None
    for p in cpaths(fx, wb):
        for a in p.atoms:
            ab = sym.atom_bool(a)
            if ab and strip_after(ab[0])[0] == "bin" and strip_after(ab[0])[1] == "Gt" and "response_buffer" in show(ab[0]):
                x = strip_after(ab[0])[2]
                if x[0] == "bin" and x[1] == "Add" and const_int(x[3]) is not None:
                    trailer = const_int(x[3])
    if trailer is None:
        yield ob("R-C18-http", "capacity#http", False, wb, None, "buffer-full test `position + k > len` not found in write_response")
        return
    cap = cap_total - hdr - trailer
    yield ob("R-C18-http", "capacity#http", cap > 0, wb, None,
             "body capacity = RESPONSE_BUFFER_SIZE %d - header %d - trailer %d = %d" % (cap_total, hdr, trailer, cap), {"capacity": cap})
    # the server never sets a warning message (it would add an unbounded string)
    warn = set()
    for b, i, s in [(b, i, s) for b in fx.fns(r"^aquatic_http::", crates=["aquatic_http"]) for i, si, s in [(i, si, s) for i, si, s in b.assigns()]
                    if s["rv"].get("agg", {}).get("adt", "").endswith("response::AnnounceResponse")]:
        pass
    for b in fx.fns(r"^aquatic_http::workers::swarm::storage::TorrentMaps::handle_announce_request$", crates=["aquatic_http"]):
        for p in cpaths(fx, b):
            for e in p.effects:
                if e[0] == "agg" and e[1].endswith("response::AnnounceResponse"):
                    warn.add(show(dict(e[3])["warning_message"]))
    yield ob("R-C18-http", "fit#http#no_warning", warn == {"Option::None{}"}, None, None, "warning_message values built by the tracker: %s" % sorted(warn), trivial=True)
    vp, vpw = validation_bound(fx, "aquatic_http", "max_peers")
    dp = default_of(fx, "aquatic_http", "max_peers")
    yield fit("R-C18-http", "fit#http#announce", "announce body", ann[0], max(ann[1], ann[2]), "max_peers", vp, vpw or "usize, validation: none", cap, "RESPONSE_BUFFER_SIZE-header-trailer")
    w = WRAPS.get(("aquatic_http", "max_peers", None))
    if vp is not None and w is not None:
        yield ob("R-C18-http", "validate#http#max_peers#cannot_wrap", not w, None, None,
                 "arithmetic of the start-up test over the whole range of the field's type: %s" % (w or "no + or * can exceed usize::MAX (saturating where needed)"), {"wrapping_sites": w})
    yield ob("R-C18-http", "default#http#announce", dp is not None and ann[0] + max(ann[1], ann[2]) * dp <= cap, None, None,
             "default max_peers=%s -> %s bytes <= %d" % (dp, ann[0] + max(ann[1], ann[2]) * (dp or 0), cap), {"default": dp})
    # scrape: number of files <= min(config limit, what fits a request buffer)
    req = fx.const_int(C + "::REQUEST_BUFFER_SIZE")
    per_hash = len("info_hash=") + 20 + len("&")
    n_req = req // per_hash
    vs, vsw = validation_bound(fx, "aquatic_http", "max_scrape_torrents")
    ds = default_of(fx, "aquatic_http", "max_scrape_torrents")
    n = min([x for x in (vs, n_req) if x is not None])
    yield fit("R-C18-http", "fit#http#scrape", "scrape body", scr[0], scr[1], "files", n,
              "a %d-byte request buffer holds at most %d `info_hash=<20 chars>&` parameters%s" % (req, n_req, "; validation: " + vsw if vsw else ""), cap, "RESPONSE_BUFFER_SIZE-header-trailer")
    yield ob("R-C18-http", "default#http#scrape", ds is not None and scr[0] + (scr[1] - 38) * min(ds, n_req) <= cap, None, None,
             "default max_scrape_torrents=%s, request-side bound %d files, with one-digit counts: %d bytes <= %d" % (ds, n_req, scr[0] + (scr[1] - 38) * min(ds or 0, n_req), cap),
             {"default": ds, "request_bound": n_req})
