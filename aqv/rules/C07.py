"""C07 - HTTP swarm bookkeeping equals a reference tracker (necessary local conditions; sibling of C01)."""
import re

from aq import sym
from aq.core import Property
from aq.sym import show, strip_after
from aq.util import call_args, cpaths, fp, has_call, ob, paths, const_int
from rules import swarm_common as S

PROP = Property(
    "C07", "other",
    "Sibling of C01 for the HTTP storage (a near-clone of the UDP storage): the same obligations are evaluated on "
    "the HTTP copy, plus the scrape rule (first min(len, max_scrape_torrents) hashes, zeros for unknown torrents, "
    "one entry per distinct hash) and the cleaning rule (forbidden torrents and torrents without peers are dropped).",
    ["aqfacts MIR extraction", "indexmap / arrayvec / BTreeMap semantics"],
    ["composition of the local facts into history equivalence is not decided"],
)
M = "aquatic_http::workers::swarm::storage"


@PROP.rule("R-C07-1", floor=1, doc="status table")
def r1(fx):
    return S.status_table(fx, "R-C07-1", "http")


@PROP.rule("R-C07-2", floor=7, doc="announce: remove < count/extract < insert, key, reply origin, insert by status, grow when full")
def r2(fx):
    return S.announce_rules(fx, "R-C07-2", "http")


@PROP.rule("R-C07-4", floor=7, doc="seeder counter coherence and closed set of mutators")
def r4(fx):
    return S.counter_rules(fx, "R-C07-4", "http")


@PROP.rule("R-C07-5", floor=4, doc="representation switch keeps every entry")
def r5(fx):
    return S.switch_rules(fx, "R-C07-5", "http")


@PROP.rule("R-C07-6a", floor=1, doc="scrape uses the same accessors as announce")
def r6a(fx):
    return S.accessor_sibling_rules(fx, "R-C07-6a", "http")


@PROP.rule("R-C07-6", floor=3, doc="scrape: first min(len, max_scrape_torrents) hashes in request order, zeros for unknown torrents")
def scrape(fx):
    b = fx.fn(M + "::TorrentMap::handle_scrape_request")
    ps = [p for p in cpaths(fx, b) if p.end == "return"]
    it = set()
    ins = set()
    for p in ps:
        for e in p.calls(r"IntoIterator>::into_iter$"):
            it.add(show(strip_after(e[2][0])))
        for e in p.calls(r"BTreeMap.*::insert$"):
            ins.add((show(strip_after(e[2][1]))[:30], show(strip_after(e[2][2]))))
    want_it = "Iterator::take(<Vec as IntoIterator>::into_iter(request.info_hashes), Ord::min(Vec::len(request.info_hashes), config.protocol.max_scrape_torrents))"
    yield ob("R-C07-6", "scrape#http#truncation", it == {want_it, "request.info_hashes"}, b, None, "iterates %s" % sorted(it), {"iter": sorted(it)})
    okv = len(ins) == 1
    val = list(ins)[0][1] if ins else ""
    okv = okv and re.fullmatch(r"Option::unwrap_or\(Option::map\(IndexMap::get\(self\.torrents, \(.*\)\.0\), closure<.*>\(\)\), ScrapeStatistics::ScrapeStatistics\{complete: 0:usize, incomplete: 0:usize, downloaded: 0:usize\}\)", val) is not None
    yield ob("R-C07-6", "scrape#http#unknown_zero", okv, b, None, "inserted statistics: %s" % [v[1][:150] for v in ins], {"value": [v[1][:200] for v in ins]})
    cb = fx.fn(M + "::TorrentMap::handle_scrape_request::{closure#0}")
    cr = [show(strip_after(p.ret)) for p in paths(fx, cb) if p.end == "return"]
    yield ob("R-C07-6", "scrape#http#known_stats", cr == ["TorrentData::scrape_statistics(torrent_data)"], cb, None, "known torrents -> %s" % cr, {"closure": cr})
    r = set(show(strip_after(p.ret))[:60] for p in ps)
    yield ob("R-C07-6", "scrape#http#keyed_map", all(x.startswith("ScrapeResponse::ScrapeResponse{files: BTreeMap::new()") for x in r) and bool(r), b, None,
             "response built as %s" % sorted(r), trivial=True)


@PROP.rule("R-C07-7", floor=2, doc="clean: forbidden torrents dropped first, others kept iff they still have peers after cleaning")
def clean(fx):
    parent = fx.fn(M + "::TorrentMap::clean")
    cb = None
    for line, callee, args in call_args(fx, parent, r"IndexMap.*::retain$"):
        if args[1][0] == "clo" and fp(args[0]) == "self.torrents":
            cb = fx.bodies.get(args[1][1])
    if cb is None:
        yield ob("R-C07-7", "clean#http#closure", False, parent, None, "retain closure over self.torrents not found")
        return
    rows = set()
    for p in sym.Evaluator(fx, cb).run():
        if p.end != "return":
            continue
        al = [sym.atom_bool(a) for a in p.atoms]
        al = tuple(x[1] for x in al if x and x[0][0] == "call" and x[0][1].endswith("AccessList::allows"))
        v = [sym.atom_variant(fx, a) for a in p.atoms]
        arm = tuple(x[1][0] for x in v if x and x[2] and fp(x[0]) == "torrent_data")
        r = strip_after(p.ret)
        rs = re.sub(r"\(torrent_data as \w+\)\.0, \^now", "ARM, now", show(r))
        rows.add((al, arm, rs))
    want = {((False,), (), "0:bool"),
            ((True,), ("Small",), "Gt(SmallPeerMap::clean_and_get_num_peers(ARM, now), 0:usize)"),
            ((True,), ("Large",), "Gt(LargePeerMap::clean_and_get_num_peers(ARM, now), 0:usize)")}
    yield ob("R-C07-7", "clean#http#keep_iff_peers", rows == want, cb, None, "retain rows %s" % sorted(rows), {"rows": sorted(map(str, rows))})
    # the cleaners return the number of peers left
    for rep, expr in (("SmallPeerMap", "ArrayVec::len(self.0)"), ("LargePeerMap", "IndexMap::len(self.peers)")):
        b = fx.fn(M + "::%s::clean_and_get_num_peers" % rep)
        r = set(show(strip_after(p.ret)) for p in cpaths(fx, b) if p.end == "return")
        yield ob("R-C07-7", "clean#http#%s#returns_len" % rep, r == {expr}, b, None, "clean_and_get_num_peers returns %s" % sorted(r), {"ret": sorted(r)})
