"""C02 - peer lists are sound, bounded and never contain the requester (arithmetic skeleton + clamps + exclusion)."""
import re

from aq import sym
from aq.core import Property
from aq.sym import show, strip_after
from aq.util import call_args, cpaths, fp, has_call, ob, paths, const_int

PROP = Property(
    "C02", "other",
    "The property quantifies over swarm sizes, requested counts and RNG outcomes and is arithmetic taken whole; "
    "decided is that the code IS the arithmetic skeleton whose bounds are argued once by hand (recorded in this "
    "rule file): the numwant clamp tables with the configured limit as origin, the selection skeleton of the "
    "three extract_response_peers implementations as normalised expression trees (guard, halves, offsets, range "
    "ends), requester exclusion (remove-before-extract for UDP/HTTP - see C01/C07; != sender filter on every "
    "extend for WebTorrent) and the truncation loop.",
    ["aqfacts MIR extraction", "hand argument below", "indexmap get_range / rand random_range semantics"],
    ["distinctness and membership of returned peers (IndexMap semantics) and uniformity over RNG outcomes are not decided",
     "an equivalent re-formulation of the arithmetic would be reported (stated risk, DESIGN.md C02)"],
)
# Hand argument (len = stored peers, max = limit, h = peers per half):
#   guard false  => len > max (ws: len > max + 1)  => middle = len/2 >= h           (no underflow in middle - h)
#   off1 in [0, max(1, middle - h))  => off1 + h <= middle                            (first range stays in first half)
#   off2 in [middle, max(middle + 1, len - h)) => off2 + h <= len                     (second range in range; disjoint from first)
#   result size 2h in {max - 1, max} (udp/http), ws: up to 2h = max + 1 or max + 2 minus the sender, then popped down to max.


def skeleton(LEN, MAX, H, rng1="rng", rng2="rng"):
    mid = "Div(%s, 2:usize)" % LEN
    e1 = "Ord::max(1:usize, Sub(%s, %s))" % (mid, H)
    e2 = "Ord::max(Add(%s, 1:usize), Sub(%s, %s))" % (mid, LEN, H)
    o1 = "RngExt::random_range(%s, Range::Range{start: 0:usize, end: %s})" % (rng1, e1)
    o2 = "RngExt::random_range(%s, Range::Range{start: %s, end: %s})" % (rng2, mid, e2)
    return ("Range::Range{start: %s, end: Add(%s, %s)}" % (o1, o1, H), "Range::Range{start: %s, end: Add(%s, %s)}" % (o2, o2, H))


IMPLS = {
    "udp": ("aquatic_udp::swarm::LargePeerMap::extract_response_peers", "IndexMap::len(self.peers)", "max_num_peers_to_take", "Div(max_num_peers_to_take, 2:usize)",
            "Le(IndexMap::len(self.peers), max_num_peers_to_take)", "self.peers"),
    "http": ("aquatic_http::workers::swarm::storage::LargePeerMap::extract_response_peers", "IndexMap::len(self.peers)", "max_num_peers_to_take", "Div(max_num_peers_to_take, 2:usize)",
             "Le(IndexMap::len(self.peers), max_num_peers_to_take)", "self.peers"),
    "ws": ("aquatic_ws::workers::swarm::storage::extract_response_peers", "IndexMap::len(peer_map)", "max_num_peers_to_take", "Add(Div(max_num_peers_to_take, 2:usize), 1:usize)",
           "Le(IndexMap::len(peer_map), Add(max_num_peers_to_take, 1:usize))", "peer_map"),
}


def canon_min(e):
    """min(a, b) in any spelling (a.min(b), cmp::min(a, b), either operand order) as one canonical text"""
    e = strip_after(e)
    if e[0] == "call" and re.search(r"(Ord::min|cmp::min)$", e[1]) and len(e[2]) == 2:
        return "min{%s}" % ", ".join(sorted(show(strip_after(a)) for a in e[2]))
    return show(e)


@PROP.rule("R-C02-1", floor=3, doc="numwant clamp tables with the configured limit as origin")
def clamps(fx):
    want = {
        "udp": ("aquatic_udp::swarm::PeerMap::announce", "peers_wanted", {
            (("Le(I32::get(request.peers_wanted.0), 0:i32)",), "config.protocol.max_response_peers"),
            (("!Le(I32::get(request.peers_wanted.0), 0:i32)",), "min{Result::unwrap(<T as TryInto>::try_into(I32::get(request.peers_wanted.0))), config.protocol.max_response_peers}")}),
        "http": ("aquatic_http::workers::swarm::storage::TorrentData::upsert_peer_and_get_response_peers", "numwant", {
            (("request.numwant is None",), "config.protocol.max_peers"),
            (("request.numwant is Some", "(request.numwant as Some).0 == 0"), "config.protocol.max_peers"),
            (("request.numwant is Some", "(request.numwant as Some).0 not in [0]"), "min{(request.numwant as Some).0, config.protocol.max_peers}")}),
    }
    for tr, (fn, rx, table) in want.items():
        b = fx.fn(fn)
        rows = set()
        for p in cpaths(fx, b):
            if p.end != "return":
                continue
            at = tuple(sym.atom_text(fx, dict(a, discr=strip_after(a["discr"]))) for a in p.atoms if rx in show(a["discr"]))
            for e in p.calls(r"PeerMap::extract_response_peers$"):
                rows.add((at, canon_min(e[2][-1])))
        yield ob("R-C02-1", "clamp#%s" % tr, rows == table, b, None, "limit passed to extract_response_peers: %s" % sorted(rows), {"table": sorted(map(str, rows))})
    b = fx.fn("aquatic_ws::workers::swarm::storage::TorrentData::handle_offers")
    rows = set()
    for p in cpaths(fx, b):
        for e in p.calls(r"storage::extract_response_peers$"):
            rows.add(tuple(canon_min(a) for a in e[2][:4]))
    want_ws = {("rng", "self.peers", "min{Vec::len(offers), config.protocol.max_offers}", "sender_peer_id")}
    yield ob("R-C02-1", "clamp#ws", rows == want_ws, b, None, "extract_response_peers(%s)" % sorted(rows), {"args": sorted(map(list, rows))})


@PROP.rule("R-C02-3", floor=9, doc="selection skeleton of the three extract_response_peers implementations")
def selection(fx):
    trees = {}
    for tr, (fn, LEN, MAX, H, guard, mp) in IMPLS.items():
        b = fx.fn(fn)
        ps = [p for p in cpaths(fx, b) if p.end == "return"]
        guards = set()
        ranges = []
        all_ret = set()
        for p in ps:
            g = [sym.atom_bool(a) for a in p.atoms]
            g = [x for x in g if x and strip_after(x[0])[0] == "bin" and "IndexMap::len(" in show(x[0])]
            if g:
                guards.add(show(strip_after(g[0][0])))
            if g and g[0][1]:
                if tr != "ws":
                    all_ret.add(show(strip_after(p.ret)))
                else:
                    ex = [show(strip_after(e[2][1]))[:60] for e in p.calls(r"Vec.*Extend.*::extend$|::extend$")]
                    all_ret.add(tuple(ex))
            else:
                rs = [re.sub(r"rng'*", "rng", show(strip_after(e[2][1]))) for e in p.calls(r"IndexMap.*::get_range$")]
                if rs not in ranges:
                    ranges.append(rs)
        yield ob("R-C02-3", "select#%s#guard" % tr, guards == {guard}, b, None, "all-peers guard %s; required %s" % (sorted(guards), guard), {"guard": sorted(guards)})
        want = list(skeleton(LEN, MAX, H))
        okr = len(ranges) == 1 and ranges[0] == want
        trees[tr] = ranges[0] if ranges else None
        yield ob("R-C02-3", "select#%s#ranges" % tr, okr, b, None,
                 "get_range arguments %s; reference [off1..off1+h, off2..off2+h] with h=%s" % ([r[:80] + "…" for r in (ranges[0] if ranges else [])], H),
                 {"ranges": ranges[0] if ranges else None})
        if tr != "ws":
            yield ob("R-C02-3", "select#%s#all_branch" % tr, all_ret == {"Iterator::collect(Iterator::copied(IndexMap::keys(self.peers)))"}, b, None,
                     "when len <= max everything is returned: %s" % sorted(all_ret), {"ret": sorted(all_ret)})
        else:
            yield ob("R-C02-3", "select#%s#all_branch" % tr, len(all_ret) == 1 and all(len(x) == 1 and x[0].startswith("Iterator::filter_map(IndexMap::iter(peer_map), closure<") for x in all_ret), b, None,
                     "when len <= max + 1 everything but the sender is returned: %s" % sorted(all_ret), {"ret": sorted(map(str, all_ret))})
    yield ob("R-C02-3", "select#sibling#udp_http", trees.get("udp") is not None and trees.get("udp") == trees.get("http"), None, None,
             "the udp and http copies of the selection arithmetic are identical trees: %s" % (trees.get("udp") == trees.get("http")), {})
    # small maps: iter().take(max)
    for tr, fn in (("udp", "aquatic_udp::swarm::SmallPeerMap::extract_response_peers"), ("http", "aquatic_http::workers::swarm::storage::SmallPeerMap::extract_response_peers")):
        b = fx.fn(fn)
        r = [re.sub(r"closure<.*?>\(\)", "CLO", show(strip_after(p.ret))) for p in paths(fx, b) if p.end == "return"]
        want = "<Vec as FromIterator>::from_iter(Iterator::map(Iterator::take(<impl [T]>::iter(self.0), max_num_peers_to_take), CLO))"
        yield ob("R-C02-3", "select#%s#small" % tr, r == [want], b, None, "small map: %s" % r, {"ret": r})


@PROP.rule("R-C02-2", floor=4, doc="WebTorrent: the sender is filtered out of every extend; result truncated to max")
def exclusion(fx):
    b = fx.fn("aquatic_ws::workers::swarm::storage::extract_response_peers")
    kids = fx.children(b)
    rets = set()
    for c in kids:
        for p in paths(fx, c):
            if p.end == "return":
                rets.add(show(strip_after(p.ret)))
    want = "<impl bool>::then_some(PartialEq::ne(_2.0, ^sender_peer_map_key), Fn::call(^peer_conversion_function, (_2.0, _2.1)))"
    yield ob("R-C02-2", "exclude#ws#filter_closures", len(kids) == 3 and rets == {want}, b, None,
             "%d filter closures, each returning %s" % (len(kids), sorted(rets)), {"closures": len(kids), "ret": sorted(rets)})
    n_ext = 0
    bad = []
    for p in cpaths(fx, b):
        for e in p.calls(r"::extend$"):
            n_ext += 1
            src = strip_after(e[2][1])
            if not (src[0] == "call" and src[1].endswith("Iterator::filter_map") and src[2][1][0] == "clo"):
                bad.append(show(src)[:80])
    yield ob("R-C02-2", "exclude#ws#every_extend_filtered", n_ext > 0 and not bad, b, None, "%d extend calls; unfiltered: %s" % (n_ext, sorted(set(bad))), {"extends": n_ext})
    # truncation: every returning path ends on the false edge of `peers.len() > max`
    okt = True
    n = 0
    for p in cpaths(fx, b):
        if p.end != "return":
            continue
        n += 1
        t = [sym.atom_bool(a) for a in p.atoms]
        t = [x for x in t if x and strip_after(x[0])[0] == "bin" and strip_after(x[0])[1] == "Gt" and "Vec::len(" in show(x[0]) and show(strip_after(x[0])[3]) == "max_num_peers_to_take"]
        small = any(x and x[1] and "IndexMap::len(" in show(x[0]) for x in [sym.atom_bool(a) for a in p.atoms[:1]])
        pops = p.calls(r"Vec.*::pop$")
        if not t:
            okt = False
        elif t[-1][1] is not False:
            # len <= max + 1 branch: a single conditional pop is enough (at most one element too many)
            if not (small and len(pops) == 1 and len(t) == 1):
                okt = False
    yield ob("R-C02-2", "exclude#ws#truncated_to_max", okt and n > 0, b, None, "all %d returning paths leave the `while peers.len() > max { pop }` loop on its false edge: %s" % (n, okt), {"paths": n})
    # udp / http: the announcer is removed before extraction (reference to C01/C07 obligations)
    for tr, fn in (("udp", "aquatic_udp::swarm::PeerMap::announce"), ("http", "aquatic_http::workers::swarm::storage::TorrentData::upsert_peer_and_get_response_peers")):
        bb = fx.fn(fn)
        okx = True
        n = 0
        for p in cpaths(fx, bb):
            if p.end != "return":
                continue
            idx = {k: [i for i, e in enumerate(p.effects) if e[0] == "call" and re.search(k, e[1])] for k in (r"PeerMap::(remove|remove_peer)$", r"PeerMap::extract_response_peers$")}
            r_, x_ = idx[r"PeerMap::(remove|remove_peer)$"], idx[r"PeerMap::extract_response_peers$"]
            n += 1
            if not (len(r_) == 1 and len(x_) == 1 and r_[0] < x_[0]):
                okx = False
        yield ob("R-C02-2", "exclude#%s#removed_before_extract" % tr, okx and n > 0, bb, None, "announcer's entry is removed before peers are extracted on all %d paths: %s" % (n, okx), {"paths": n})
