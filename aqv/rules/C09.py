"""C09 - WebRTC offers and answers are relayed only along real, unused offers."""
import re

from aq import sym
from aq.core import Property
from aq.sym import show, strip_after
from aq.util import call_args, cpaths, fp, has_call, ob, paths, const_int

PROP = Property(
    "C09", "other",
    "Necessary conditions decided on every enumerated path of handle_offers (loop unrolled once), handle_answer "
    "and the announce handler: each forwarded offer is preceded by recording the expectation (receiver id, that "
    "offer's id) on the sender's entry, is tagged with the sender's peer id and addressed with the (consumer, "
    "connection) pair of the SAME zipped receiver tuple; receivers come 1:1 from zip(offers, extract_response_peers("
    "min(offers, max_offers), sender)); neither offers nor answers are handled for a stopped announce; an answer is "
    "forwarded only when swap_remove of (answerer id, offer id) from the addressed peer's expectations succeeds, "
    "to that peer's own pair; otherwise an error goes to the answerer or nothing happens; the number of receivers "
    "handed to the zip is exactly min(limit, other peers) by the selection function's own obligations.",
    ["aqfacts MIR extraction", "indexmap semantics", "C08 (bookkeeping) and C10 (expiry of expectations)"],
    ["multi-connection offer/answer histories are not decided"],
)
ST = "aquatic_ws::workers::swarm::storage"


def zip_item(e):
    """the `(zip.next() as Some).0` sub-expression an expression is projected from -> (site, projection names)"""
    names = []
    e = strip_after(e)
    while e[0] == "f":
        names.append(str(e[2]))
        e = e[1]
    names.reverse()
    if e[0] == "vf" and e[2] == "Some" and e[1][0] == "call" and re.search(r"Zip as .*Iterator>::next$", e[1][1]):
        return e[1][3], names
    return None, names


@PROP.rule("R-C09-1", floor=5, doc="per forwarded offer: expectation recorded first, on the sender's entry, for the same receiver tuple and offer")
def offers(fx):
    b = fx.fn(ST + "::TorrentData::handle_offers")
    ps = [p for p in cpaths(fx, b) if p.end == "return"]
    n = 0
    bad = []
    metas, msgs, exps, recvs = set(), set(), set(), set()
    for p in ps:
        ev = [(i, e) for i, e in enumerate(p.effects) if e[0] == "call" and (re.search(r"IndexMap.*::insert$", e[1]) or re.search(r"Vec.*::push$", e[1]))]
        pushes = [(i, e) for i, e in ev if e[1].endswith("::push")]
        ins = [(i, e) for i, e in ev if e[1].endswith("::insert")]
        for k, (pi, pe) in enumerate(pushes):
            n += 1
            prev = [x for x in ins if x[0] < pi and (k == 0 or x[0] > pushes[k - 1][0])]
            if len(prev) != 1:
                bad.append("push without exactly one preceding insert in its iteration (%d)" % len(prev))
                continue
            ie = prev[0][1]
            recvs.add(show(strip_after(ie[2][0])))
            key = strip_after(ie[2][1])
            tup = strip_after(pe[2][1])
            if not (key[0] == "agg" and key[1].endswith("ExpectingAnswer") and tup[0] == "tup"):
                bad.append("unexpected shapes")
                continue
            kf = dict(key[3])
            s1, n1 = zip_item(kf["from_peer_id"])
            s2, n2 = zip_item(kf["regarding_offer_id"])
            exps.add((tuple(n1), tuple(n2)))
            meta, msg = tup[1]
            mf = dict(meta[3]) if meta[0] == "agg" else {}
            s3, n3 = zip_item(mf.get("out_message_consumer_id", ("u", 0)))
            s4, n4 = zip_item(mf.get("connection_id", ("u", 0)))
            metas.add((tuple(n3), tuple(n4), show(mf.get("pending_scrape_id"))))
            inner = msg[3][0][1] if msg[0] == "agg" and msg[2] == "OfferOutMessage" else None
            if inner is None or inner[0] != "agg":
                bad.append("pushed message is not an OfferOutMessage")
                continue
            of = dict(inner[3])
            s5, n5 = zip_item(of["offer"])
            s6, n6 = zip_item(of["offer_id"])
            msgs.add((show(of["peer_id"]), show(of["info_hash"]), tuple(n5), tuple(n6)))
            if len({s1, s2, s3, s4, s5, s6}) != 1 or s1 is None:
                bad.append("fields of one forwarded offer come from different zip items")
    yield ob("R-C09-1", "offers#same_tuple", n > 0 and not bad, b, None, "%d forwarded-offer path-sites; problems: %s" % (n, sorted(set(bad))), {"sites": n})
    yield ob("R-C09-1", "offers#expectation", exps == {(("1", "0"), ("0", "offer_id"))}, b, None,
             "ExpectingAnswer{from_peer_id: item.%s, regarding_offer_id: item.%s}" % tuple(".".join(x) for x in (list(exps)[0] if len(exps) == 1 else ((), ()))),
             {"expectation": sorted(map(str, exps))})
    yield ob("R-C09-1", "offers#recorded_on_sender", recvs == {"(IndexMap::get_mut(self.peers, sender_peer_id) as Some).0.expecting_answers"}, b, None,
             "expectation stored in %s" % sorted(recvs), {"receiver": sorted(recvs)})
    yield ob("R-C09-1", "offers#addressing", metas == {(("1", "2"), ("1", "1"), "Option::None{}")}, b, None,
             "OutMessageMeta{consumer: item.%s, connection: item.%s}" % tuple(".".join(x) for x in (list(metas)[0][:2] if len(metas) == 1 else ((), ()))), {"meta": sorted(map(str, metas))})
    yield ob("R-C09-1", "offers#message", msgs == {("sender_peer_id", "info_hash", ("0", "offer"), ("0", "offer_id"))}, b, None,
             "OfferOutMessage fields (peer_id, info_hash, offer, offer_id) <- %s" % sorted(msgs), {"message": sorted(map(str, msgs))})
    cb = fx.fn(ST + "::TorrentData::handle_offers::{closure#0}")
    cr = [show(strip_after(p.ret)) for p in paths(fx, cb) if p.end == "return"]
    yield ob("R-C09-1", "offers#receiver_tuple", cr == ["(peer_id, peer.connection_id, peer.consumer_id)"], cb, None,
             "receiver tuple built as %s (id, connection, consumer)" % cr, {"tuple": cr})


@PROP.rule("R-C09-2", floor=2, doc="receivers are zipped 1:1 with offers and come from extract_response_peers(min(offers, max_offers), sender)")
def pairing(fx):
    b = fx.fn(ST + "::TorrentData::handle_offers")
    zips = set()
    for p in cpaths(fx, b):
        for e in p.calls(r"Iterator::zip$"):
            zips.add(tuple(re.sub(r"closure<.*?>\(\)", "CLO", show(strip_after(a))) for a in e[2]))
    want = {("<Vec as IntoIterator>::into_iter(offers)",
             "extract_response_peers(rng, self.peers, Ord::min(Vec::len(offers), config.protocol.max_offers), sender_peer_id, CLO)")}
    yield ob("R-C09-2", "pairing#zip", zips == want, b, None, "zip(%s)" % sorted(zips), {"zip": sorted(map(list, zips))})
    skip = []
    for i, t in b.calls(r"Iterator::(skip|step_by|rev|cycle|chain|filter)$"):
        skip.append(t["line"])
    yield ob("R-C09-2", "pairing#no_reorder", not skip, b, None, "iterator adapters that would break the 1:1 pairing: %s" % skip, trivial=True)


@PROP.rule("R-C09-3", floor=2, doc="offers and answers are only handled when the announce is not `stopped`")
def gating(fx):
    b = fx.fn(ST + "::TorrentMap::handle_announce_request")
    n = 0
    bad = 0
    for p in cpaths(fx, b):
        for i, e in enumerate(p.effects):
            if e[0] == "call" and re.search(r"TorrentData::(handle_offers|handle_answer)$", e[1]):
                n += 1
                okg = False
                for a in p.atoms:
                    ab = sym.atom_bool(a)
                    if not ab or a["neff"] > i:
                        continue
                    x = strip_after(ab[0])
                    if x[0] == "call" and re.search(r"PartialEq(>)?::(ne|eq)$", x[1]) and x[2][0][0] == "call" and x[2][0][1].endswith("insert_or_update_peer"):
                        rhs = x[2][1]
                        val = None
                        if rhs[0] == "c" and rhs[2] == "promoted":
                            pv = [show(q.ret) for q in paths(fx, fx.promoted(b, rhs[3])) if q.end == "return"]
                            val = pv[0] if pv else None
                        differs = ab[1] if x[1].endswith("ne") else (not ab[1])
                        if val == "PeerStatus::Stopped{}" and differs:
                            okg = True
                if not okg:
                    bad += 1
    yield ob("R-C09-3", "gating#not_stopped", n > 0 and bad == 0, b, None, "%d handle_offers/handle_answer path-sites, %d not on the `status != Stopped` edge" % (n, bad), {"sites": n})
    args = set()
    for p in cpaths(fx, b):
        for e in p.calls(r"TorrentData::handle_offers$"):
            args.add(tuple(show(strip_after(a))[:40] for a in e[2][4:7]))
        for e in p.calls(r"TorrentData::handle_answer$"):
            args.add(("answer",) + tuple(show(strip_after(a))[:50] for a in e[2][1:6]))
    want = {("request.info_hash", "request.peer_id", "(request.offers as Some).0"),
            ("answer", "request_sender_meta", "request.info_hash", "request.peer_id", "(request.answer_to_peer_id as Some).0", "(request.answer_offer_id as Some).0")}
    yield ob("R-C09-3", "gating#arguments", args == want, b, None, "arguments %s" % sorted(args), {"args": sorted(map(list, args))})


@PROP.rule("R-C09-4", floor=3, doc="handle_answer: forwarded iff the expectation is consumed; error to the answerer otherwise; nothing when the peer is gone")
def answers(fx):
    b = fx.fn(ST + "::TorrentData::handle_answer")
    rows = set()
    RECV = "(IndexMap::get_mut(self.peers, answer_receiver_id) as Some).0"
    for p in cpaths(fx, b):
        if p.end != "return":
            continue
        found = [sym.atom_variant(fx, a) for a in p.atoms]
        found = [("Some" if v[2] else "None") for v in found if v and show(strip_after(v[0])) == "IndexMap::get_mut(self.peers, answer_receiver_id)"]
        cons = [sym.atom_bool(a) for a in p.atoms]
        cons = [(show(strip_after(x[0])), x[1]) for x in cons if x]
        r = strip_after(p.ret)
        kind = "None"
        meta = None
        if r[0] == "agg" and r[2] == "Some":
            tup = r[3][0][1]
            m, msg = tup[1]
            kind = msg[2] if msg[0] == "agg" else show(msg)[:30]
            if m[0] == "agg":
                f = dict(m[3])
                meta = (show(f["out_message_consumer_id"]), show(f["connection_id"]))
            else:
                meta = show(m)
            if kind == "AnswerOutMessage":
                inner = dict(msg[3][0][1][3])
                kind += "{peer_id=%s,offer_id=%s,answer=%s,info_hash=%s}" % (show(inner["peer_id"]), show(inner["offer_id"]), show(inner["answer"]), show(inner["info_hash"]))
        rows.add((tuple(found), tuple(cons), kind, meta))
    consumed = "Option::is_some(IndexMap::swap_remove(%s.expecting_answers, ExpectingAnswer::ExpectingAnswer{from_peer_id: peer_id, regarding_offer_id: offer_id}))" % RECV
    want = {
        (("None",), (), "None", None),
        (("Some",), ((consumed, True),), "AnswerOutMessage{peer_id=peer_id,offer_id=offer_id,answer=answer,info_hash=info_hash}", (RECV + ".consumer_id", RECV + ".connection_id")),
        (("Some",), ((consumed, False),), "ErrorResponse", "<T as Into>::into(request_sender_meta)"),
    }
    for w in sorted(want, key=str):
        k = "answers#%s%s" % (w[0][0], "" if not w[1] else ("#consumed" if w[1][0][1] else "#not_expected"))
        yield ob("R-C09-4", k, w in rows, b, None, "row %s present: %s" % (w[2][:40], w in rows), {"row": str(w)[:300]})
    yield ob("R-C09-4", "answers#table_complete", rows == want, b, None, "handle_answer rows: %d (expected exactly 3)" % len(rows), {"rows": sorted(str(r)[:200] for r in rows)})


@PROP.rule("R-C09-5", floor=6, doc="count: exactly min(offers sent, max_offers, other peers) receivers - the selection function never returns the sender, never more than its limit, and everyone when there are no more others than that")
def count(fx):
    # The receivers of handle_offers are the result of the WebTorrent extract_response_peers (R-C09-2 pins the call and
    # its limit argument).  "min(offers, max_offers, other peers) are forwarded" therefore needs that function to return
    # exactly min(limit, others) distinct non-sender peers: these are its obligations from C02, decided here as well so
    # that a change to the selection is reported against the offer relay it breaks.
    from rules import C02
    n = 0
    for gen in (C02.clamps, C02.selection, C02.exclusion):
        for o in gen(fx):
            if "#ws" in o.key:
                n += 1
                o2 = ob("R-C09-5", "count#" + o.key, o.ok, None, None, o.detail, o.sample, o.trivial)
                o2.where = o.where
                yield o2
    if n == 0:
        yield ob("R-C09-5", "count#ws#anchors", False, None, None, "no WebTorrent selection obligations found")


@PROP.rule("R-C09-6", floor=1, doc="an expectation that has aged out is dropped by the cleaning pass wherever it sits in the map: the pass prunes "
                                   "expecting_answers with retain(valid(now)) over every entry (answers are consumed with swap_remove, so age order is not position order)")
def expectations_pruned(fx):
    from rules.C10 import retain_sites, sym_field_root
    n = 0
    bad = []
    for tr, b, line, recv, cb, callee in retain_sites(fx):
        root, names = sym_field_root(recv)
        if tr != "ws" or names[-1:] != ["expecting_answers"]:
            continue
        n += 1
        rets = set()
        for p in cpaths(fx, cb):
            if p.end != "return" or p.ret is None:
                continue
            r = strip_after(p.ret)
            rets.add(show(r))
            if not (r[0] == "call" and r[1].endswith("::ValidUntil::valid") and strip_after(r[2][0])[0] == "p"):
                bad.append(show(r)[:60])
        if not rets:
            bad.append("closure without a return")
        # the retain must run for every stored peer of the pass: it sits in the per-peer closure of the torrent-level retain
        if "clean_and_get_num_peers" not in b.short:
            bad.append("not part of the cleaning pass: %s" % b.short.split("::")[-2:])
    yield ob("R-C09-6", "expire#ws#expectations_pruned_by_deadline", n == 1 and not bad, None, None,
             "%d retain over expecting_answers in the cleaning pass, predicate ValidUntil::valid(<entry>, now) on every entry: %s" % (n, bad or "yes"), {"sites": n})
