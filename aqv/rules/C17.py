"""C17 - WebTorrent tracker routes to the right connection; closed connections leave no peers (shape clauses)."""
import re

from aq import sym
from aq.core import Property
from aq.sym import show, strip_after
from aq.util import call_args, cpaths, fp, has_call, calls_in, in_test_code, ob, paths, who_calls, who_constructs, const_int

PROP = Property(
    "C17", "other",
    "Shape clauses of the routing and clean-up contract: the routing pair (socket worker id, connection key) is "
    "never split - every OutMessageMeta takes both from one source object, the swarm worker sends to the meta's "
    "own consumer id, the socket worker looks the meta's connection key up in its own slot map; clean-up always "
    "runs (no return of ConnectionRunner::run bypasses after_close, which notifies the swarm worker chosen by the "
    "same function that routed the announces); announces are recorded before they are forwarded and a second "
    "peer id is refused; a pending scrape is only registered when at least one swarm worker will answer, and the "
    "merged reply is sent exactly when the last part arrives.",
    ["aqfacts MIR extraction", "glommio channels deliver in order", "C08 (ownership in the swarm worker)"],
    ["delivery, back-pressure (try_send on a full local channel drops by design) and close timing are not decided"],
)
W = "aquatic_ws"
CONN = "aquatic_ws::workers::socket::connection"


def base_and_field(e):
    e = strip_after(e)
    if e[0] == "f":
        return show(e[1]), str(e[2])
    return show(e), ""


@PROP.rule("R-C17-1", floor=6, doc="the routing pair is never split")
def pair(fx):
    n = 0
    bad = []
    for b in fx.bodies.values():
        if b.crate != W or b.kind == "promoted" or in_test_code(b):
            continue
        if not any(s["rv"].get("agg", {}).get("adt", "").endswith("common::OutMessageMeta") for _, _, s in b.assigns()):
            continue
        for p in cpaths(fx, b)[:3000]:
            for e in p.effects:
                if e[0] == "agg" and e[1].endswith("common::OutMessageMeta"):
                    f = dict(e[3])
                    b1, n1 = base_and_field(f["out_message_consumer_id"])
                    b2, n2 = base_and_field(f["connection_id"])
                    n += 1
                    same_obj = b1 == b2 and n1 in ("out_message_consumer_id", "consumer_id") and n2 == "connection_id"
                    same_tuple = b1 == b2 and (n1, n2) == ("2", "1") and re.search(r"Zip as .*Iterator>::next", b1) is not None
                    if not (same_obj or same_tuple):
                        bad.append("%s: consumer from %s.%s, connection from %s.%s" % (b.short.split("::")[-1], b1[-50:], n1, b2[-50:], n2))
    yield ob("R-C17-1", "pair#out_message_meta", n >= 3 and not bad, None, None,
             "%d OutMessageMeta constructions; split pairs: %s" % (n, sorted(set(bad))), {"constructions": n})
    # InMessageMeta: both ids are the connection's own
    b = fx.fn(CONN + "::ConnectionReader::make_connection_meta")
    r = set()
    for p in paths(fx, b):
        if p.end == "return":
            f = dict(strip_after(p.ret)[3])
            r.add((show(f["connection_id"]), show(f["out_message_consumer_id"]), show(f["ip_version"])))
    yield ob("R-C17-1", "pair#in_message_meta", r == {("self.connection_id", "self.out_message_consumer_id", "self.ip_version")}, b, None, "make_connection_meta = %s" % sorted(r), {"meta": sorted(map(list, r))})
    who = sorted(set(bb.short for bb, i, s in who_constructs(fx, r"aquatic_ws::common::InMessageMeta$", crates=[W]) if not in_test_code(bb)))
    yield ob("R-C17-1", "pair#who_builds_in_meta", who == [CONN + "::ConnectionReader::make_connection_meta"], None, None, "InMessageMeta built in %s" % who, {"who": who})
    # reader's ids come from the runner's, the runner's from the socket worker (its index and the slot-map key of this connection)
    rb = fx.fn(CONN + "::ConnectionRunner::run_inner_stream_agnostic::{closure#0}")
    ids = set()
    for body in [rb] + [c for c in fx.bodies.values() if c.name.startswith(rb.name + "::{closure") and c.unit == rb.unit]:
        for p in cpaths(fx, body)[:500]:
            for e in p.effects:
                if e[0] == "agg" and e[1].endswith("::ConnectionReader"):
                    f = dict(e[3])
                    ids.add((show(strip_after(f["connection_id"])), show(strip_after(f["out_message_consumer_id"]))))
    yield ob("R-C17-1", "pair#reader_ids", ids == {("self.connection_id", "self.out_message_consumer_id")}, rb, None, "ConnectionReader ids = %s" % sorted(ids), {"ids": sorted(map(list, ids))})
    sw = fx.fn("aquatic_ws::workers::socket::run_socket_worker::{closure#0}")
    rid = set()
    for body in [sw] + [c for c in fx.bodies.values() if c.name.startswith(sw.name + "::{closure") and c.unit == sw.unit]:
        for p in cpaths(fx, body)[:3000]:
            for e in p.effects:
                if e[0] == "agg" and e[1].endswith("::ConnectionRunner"):
                    f = dict(e[3])
                    rid.add((show(strip_after(f["connection_id"]))[:90], show(strip_after(f["out_message_consumer_id"]))[:90]))
    okr = len(rid) >= 1 and all(re.match(r"DenseSlotMap::insert\(RefCell::borrow_mut\(", c) and re.match(r"ConsumerId::ConsumerId\{0: ", k) for c, k in rid)
    yield ob("R-C17-1", "pair#runner_ids", okr, sw, None, "ConnectionRunner ids = %s" % sorted(rid), {"ids": sorted(map(list, rid))})
    # swarm -> socket: send_to(meta.out_message_consumer_id, (meta, msg)) ; socket: handles.get(meta.connection_id)
    hb = [c for c in fx.bodies.values() if c.name.startswith("aquatic_ws::workers::swarm::handle_request_stream") and c.kind == "coroutine"]
    sends = set()
    for body in hb:
        for p in cpaths(fx, body)[:2000]:
            for e in p.calls(r"Senders.*::send_to$"):
                idx = strip_after(e[2][1])
                msg = strip_after(e[2][2])
                i0 = idx[3] if idx[0] == "cast" else idx
                bi, ni = base_and_field(i0[1] if i0[0] == "f" and str(i0[2]) == "0" else i0)
                m0 = msg[1][0] if msg[0] == "tup" else msg
                sends.add((ni, bi == show(m0)))
    yield ob("R-C17-1", "pair#swarm_send", sends == {("out_message_consumer_id", True)}, None, None,
             "swarm worker sends each (meta, message) to index meta.%s of that same meta: %s" % (sorted(sends), sends == {("out_message_consumer_id", True)}), {"sends": sorted(map(list, sends))})
    rc = [c for c in fx.bodies.values() if c.name.startswith("aquatic_ws::workers::socket::receive_out_messages") and c.kind == "coroutine"]
    gets = set()
    for body in rc:
        for p in cpaths(fx, body)[:2000]:
            for e in p.calls(r"DenseSlotMap.*::get$|SlotMap.*::get$"):
                k = strip_after(e[2][1])
                ts = [x for x in p.calls(r"LocalSender.*::try_send$")]
                fwd = set(show(strip_after(x[2][1]))[:40] for x in ts)
                gets.add((base_and_field(k)[1], tuple(sorted(fwd))[:1]))
    yield ob("R-C17-1", "pair#socket_lookup", len(gets) >= 1 and all(g[0] == "connection_id" for g in gets), None, None,
             "socket worker looks up meta.%s in its own connection map" % sorted(set(g[0] for g in gets)), {"lookup": sorted(map(str, gets))})


@PROP.rule("R-C17-2", floor=4, doc="clean-up always runs and notifies the swarm workers that were announced to")
def cleanup(fx):
    b = fx.fn(CONN + "::ConnectionRunner::run::{closure#0}")
    ac = [i for i, t in b.calls(r"ConnectionCleanupData::after_close$")]
    rets = b.cfg.exits()
    bypass = [r for r in rets if r in b.cfg.reach_from(0, avoid_blocks=ac)]
    yield ob("R-C17-2", "cleanup#always_runs", len(ac) >= 1 and not bypass, b, None,
             "%d after_close call sites; returns reachable without passing one: %d" % (len(ac), len(bypass)), {"sites": len(ac)})
    args = set()
    for line, callee, a in call_args(fx, b, r"ConnectionCleanupData::after_close$"):
        args.add(tuple(show(x)[:60] for x in a[2:]))
    yield ob("R-C17-2", "cleanup#identity_passed", args == {("control_message_senders", "self.out_message_consumer_id", "self.connection_id")}, b, None,
             "after_close(.., %s)" % sorted(args), {"args": sorted(map(list, args))})
    # after the runner finishes the handle is removed from the worker's map
    sw = fx.fn("aquatic_ws::workers::socket::run_socket_worker::{closure#0}")
    rm = False
    for body in [c for c in fx.bodies.values() if c.name.startswith(sw.name + "::{closure") and c.unit == sw.unit and c.kind == "coroutine"]:
        for p in cpaths(fx, body)[:500]:
            seq = [e[1].split("::")[-1] for e in p.effects if e[0] == "call" and re.search(r"ConnectionRunner::run$|DenseSlotMap.*::remove$", e[1])]
            if seq == ["run", "remove"]:
                rm = True
    yield ob("R-C17-2", "cleanup#handle_removed", rm, sw, None, "connection task: runner.run(..).await then connection_handles.remove(connection_id): %s" % rm, trivial=True)
    ab = fx.fn(CONN + "::ConnectionCleanupData::after_close::{closure#0}")
    idx, src, msg, send = set(), set(), set(), set()
    for p in cpaths(fx, ab):
        for e in p.calls(r"calculate_in_message_consumer_index$"):
            idx.add(tuple(show(strip_after(x))[:60] for x in e[2]))
        for e in p.calls(r"IntoIterator>::into_iter$"):
            s = show(strip_after(e[2][0]))
            if "announced_info_hashes" in s:
                src.add(s[:80])
        for e in p.effects:
            if e[0] == "agg" and e[1].endswith("SwarmControlMessage"):
                f = dict(e[3])
                msg.add((show(strip_after(f["out_message_consumer_id"])), show(strip_after(f["connection_id"])), show(strip_after(f["ip_version"]))))
        for e in p.calls(r"Senders.*::send_to$"):
            send.add(re.sub(r"\(<IntoIter as Iterator>::next\(.*\) as Some\)\.0\.0$", "GROUP.key", show(strip_after(e[2][1])))[:60])
    okx = len(idx) == 1 and list(idx)[0][0] == "config" and src and all("RefCell::take(self.announced_info_hashes)" in s for s in src)
    yield ob("R-C17-2", "cleanup#same_routing_function", okx and send == {"GROUP.key"}, ab, None,
             "entries grouped by calculate_in_message_consumer_index%s over %s, one message per group sent to %s" % (sorted(idx), sorted(src), sorted(send)), {"index": sorted(map(list, idx))})
    yield ob("R-C17-2", "cleanup#message_identity", msg == {("out_message_consumer_id", "connection_id", "self.ip_version")}, ab, None, "ConnectionClosed fields %s" % sorted(msg), {"fields": sorted(map(list, msg))})
    # the announce path uses the same function
    hb = fx.fn(CONN + "::ConnectionReader::handle_announce_request::{closure#0}")
    ai = set()
    for p in cpaths(fx, hb):
        for e in p.calls(r"Senders.*::send_to$"):
            ai.add(show(strip_after(e[2][1])))
    yield ob("R-C17-2", "cleanup#announce_routing", ai == {"calculate_in_message_consumer_index(self.config, request.info_hash)"}, hb, None, "announce forwarded to %s" % sorted(ai), {"index": sorted(ai)})


@PROP.rule("R-C17-3", floor=3, doc="record before send; a second peer id for a torrent is refused; stopped forgets the record")
def record(fx):
    hb = fx.fn(CONN + "::ConnectionReader::handle_announce_request::{closure#0}")
    ps = cpaths(fx, hb)
    n = 0
    bad = []
    for p in ps:
        for i, e in enumerate(p.effects):
            if e[0] == "call" and re.search(r"Senders.*::send_to$", e[1]):
                n += 1
                ent = [sym.atom_variant(fx, a) for a in p.atoms if a["neff"] <= i]
                ent = [v for v in ent if v and "HashMap::entry(" in show(v[0]) and "announced_info_hashes" in show(v[0])]
                kind = ent[-1][1][0] if ent and ent[-1][2] else None
                if kind == "Vacant":
                    ins = [x for x in p.effects[:i] if x[0] == "call" and re.search(r"VacantEntry.*::insert$", x[1]) and show(strip_after(x[2][1])) == "request.peer_id"]
                    if len(ins) != 1:
                        bad.append("Vacant without recording request.peer_id")
                elif kind == "Occupied":
                    eq = [sym.atom_bool(a) for a in p.atoms if a["neff"] <= i]
                    eq = [x for x in eq if x and strip_after(x[0])[0] == "call" and re.search(r"PartialEq(>)?::(ne|eq)$", strip_after(x[0])[1]) and "OccupiedEntry::get(" in show(x[0]) and "request.peer_id" in show(x[0])]
                    same = eq and ((strip_after(eq[-1][0])[1].endswith("ne") and not eq[-1][1]) or (strip_after(eq[-1][0])[1].endswith("eq") and eq[-1][1]))
                    if not same:
                        bad.append("Occupied without stored id == request.peer_id")
                else:
                    bad.append("send without consulting announced_info_hashes")
    yield ob("R-C17-3", "record#before_send", n > 0 and not bad, hb, None, "%d forwarding path-sites; problems: %s" % (n, sorted(set(bad))), {"sites": n})
    ref = 0
    okr = True
    for p in ps:
        eq = [sym.atom_bool(a) for a in p.atoms]
        eq = [x for x in eq if x and strip_after(x[0])[0] == "call" and re.search(r"PartialEq(>)?::(ne|eq)$", strip_after(x[0])[1]) and "OccupiedEntry::get(" in show(x[0])]
        differs = eq and ((strip_after(eq[-1][0])[1].endswith("ne") and eq[-1][1]) or (strip_after(eq[-1][0])[1].endswith("eq") and not eq[-1][1]))
        if not differs or p.end != "return":
            continue
        ref += 1
        r = strip_after(p.ret)
        if p.calls(r"Senders.*::send_to$") or len(p.calls(r"send_error_response$")) != 1:
            okr = False
        if not ((r[0] == "agg" and r[2] == "Err") or has_call(r, r"from_residual$")):
            okr = False
    yield ob("R-C17-3", "record#second_peer_id_refused", ref > 0 and okr, hb, None, "%d paths with a different stored peer id: error reply, Err return, nothing forwarded: %s" % (ref, okr), {"paths": ref})
    st = 0
    oks = True
    for p in ps:
        ev = [sym.atom_variant(fx, a) for a in p.atoms]
        stopped = [v for v in ev if v and v[2] and v[1] == ["Stopped"] and "request.event" in show(v[0])]
        sent = p.calls(r"Senders.*::send_to$")
        if stopped and sent:
            st += 1
            rm = [x for x in p.calls(r"HashMap.*::remove$") if "announced_info_hashes" in show(x[2][0]) and show(strip_after(x[2][1])) == "request.info_hash"]
            if len(rm) != 1:
                oks = False
    yield ob("R-C17-3", "record#stopped_forgets", st > 0 and oks, hb, None, "%d stopped-announce paths remove the record for request.info_hash: %s" % (st, oks), {"paths": st})


@PROP.rule("R-C17-4", floor=3, doc="pending scrape typestate: registered only if a swarm worker will answer; merged reply sent when the last part arrives")
def pending(fx):
    hb = fx.fn(CONN + "::ConnectionReader::handle_scrape_request::{closure#0}")
    ps = [p for p in cpaths(fx, hb) if p.end == "return"]
    n = 0
    bad = []
    for p in ps:
        r = strip_after(p.ret)
        if not (r[0] == "agg" and r[2] == "Ok"):
            continue
        ins = [(i, e) for i, e in enumerate(p.effects) if e[0] == "call" and re.search(r"Slab.*::insert$", e[1])]
        if not ins:
            continue
        n += 1
        sends = [e for e in p.effects[ins[0][0]:] if e[0] == "call" and re.search(r"Senders.*::send_to$", e[1])]
        if sends:
            continue
        # zero-iteration path of `for .. in info_hashes_by_worker`: infeasible only if the map was tested non-empty (idiom 3)
        ne = [sym.atom_bool(a) for a in p.atoms if a["neff"] <= ins[0][0]]
        ne = [x for x in ne if x and strip_after(x[0])[0] == "call" and re.search(r"BTreeMap.*::is_empty$", strip_after(x[0])[1]) and x[1] is False]
        it = [show(strip_after(e[2][0])) for e in p.calls(r"IntoIterator>::into_iter$") if "BTreeMap" in show(strip_after(e[2][0])) or "info_hashes_by_worker" in show(strip_after(e[2][0]))]
        guarded = bool(ne) and any(show(strip_after(ne[-1][0])[2][0]) == s for s in it)
        if not guarded:
            bad.append("a pending scrape can be registered and the function return Ok without asking any swarm worker")
    yield ob("R-C17-4", "pending#registered_only_if_asked", n > 0 and not bad, hb, None,
             "%d paths register a pending scrape; problems: %s (e.g. `{\"action\":\"scrape\",\"info_hash\":[]}`)" % (n, sorted(set(bad))), {"paths": n})
    cnt = set()
    for p in ps:
        for e in p.effects:
            if e[0] == "agg" and e[1].endswith("PendingScrapeResponse"):
                cnt.add(show(strip_after(dict(e[3])["pending_worker_out_messages"]))[:60])
    yield ob("R-C17-4", "pending#count_is_groups", len(cnt) == 1 and list(cnt)[0].startswith("BTreeMap::len("), hb, None, "pending_worker_out_messages = %s" % sorted(cnt), {"count": sorted(cnt)})
    metas = set()
    for p in ps:
        for e in p.calls(r"Senders.*::send_to$"):
            m = strip_after(e[2][2])
            metas.add(show(m[1][0])[:260] if m[0] == "tup" else show(m)[:80])
    okm = len(metas) == 1 and re.match(r"ConnectionReader::make_connection_meta\(self, Option::Some\{0: PendingScrapeId::PendingScrapeId\{0: .*Slab::insert\(RefCell::borrow_mut\(self\.pending_scrape_slab\)", list(metas)[0]) is not None
    metas = set(x[:110] + "…" for x in metas)
    yield ob("R-C17-4", "pending#parts_carry_slot", okm, hb, None, "scrape parts are sent with meta %s" % sorted(metas), {"meta": sorted(metas)})
    # writer: decrement per part, merged reply exactly when the counter reaches zero
    wb = fx.fn(CONN + "::ConnectionWriter::run_out_message_loop::{closure#0}")
    rows = set()
    for p in cpaths(fx, wb):
        arm = [sym.atom_variant(fx, a) for a in p.atoms]
        arm = [v for v in arm if v and v[2] and v[1] == ["ScrapeResponse"]]
        if not arm:
            continue
        dec = [show(strip_after(e[2])) for e in p.effects if e[0] == "write" and e[5] and e[5][-1] == ("f", "pending_worker_out_messages")]
        z = [sym.atom_bool(a) for a in p.atoms]
        z = [x[1] for x in z if x and strip_after(x[0])[0] == "bin" and strip_after(x[0])[1] == "Eq" and "pending_worker_out_messages" in show(x[0]) and const_int(strip_after(x[0])[3]) == 0]
        if not dec or not z:
            continue
        sent = len(p.calls(r"ConnectionWriter.*::send_out_message$"))
        removed = len(p.calls(r"Slab.*::remove$"))
        rows.add((z[0], removed, sent if sent <= 1 else 2, all(d.startswith("Sub(") and d.endswith(", 1:usize)") for d in dec)))
    # with the loop unrolled once a second message may be handled on the same path: compare the first iteration only through the minimal rows
    want = {(True, 1, 1, True), (False, 0, 0, True)}
    core = set(r for r in rows if r in want)
    yield ob("R-C17-4", "pending#merge_when_last", core == want and all(r[3] for r in rows), wb, None,
             "(counter == 0, slab entries removed, replies sent, decrement by one) rows: %s" % sorted(rows), {"rows": sorted(map(str, rows))})


@PROP.rule("R-C17-5", floor=1, doc="no RefCell guard is alive at a suspension point of any async body of the WebTorrent tracker (a second borrower would panic and take the worker down)")
def refcell_across_await(fx):
    from aq import refcell
    from aq.util import in_test_code as _t
    n = 0
    bad = []
    for b in fx.bodies.values():
        if b.crate not in ("aquatic_ws",) or _t(b) or not any(blk["term"]["k"] == "yield" for blk in b.blocks):
            continue
        n += 1
        for line, held in refcell.held_across_await(b):
            bad.append("%s:%s holds %s (borrowed at line %s) across an await" % (b.short.split("::workers::")[-1], line, held[0][0], held[0][1]))
    yield ob("R-C17-5", "await#ws#no_refcell_guard_held", n >= 10 and not bad, None, None,
             "%d async bodies analysed (may-hold dataflow of std::cell::Ref / RefMut locals to every yield): %s" % (n, bad[:4] or "none held across an await"), {"async_bodies": n, "held": bad[:10]})
