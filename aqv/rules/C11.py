"""C11 - access list enforced on announce, on cleaning and across reloads."""
import re

from aq import sym
from aq.core import Property
from aq.sym import show, strip_after
from aq.util import (call_args, closure_env, cpaths, fp, has_call, calls_in, in_test_code, ob, ok_paths, param_index,
                     param_roots, paths, true_sets, unwrap_origin, who_calls, const_int)

PROP = Property(
    "C11", "proof",
    "Gate-before-state decided on every enumerated path of the four announce handlers (the swarm is only reached "
    "after allows(config mode, this request's info hash) returned true; the false edge builds the error reply), "
    "the allows() decision tables, the clean-first rule in the three torrent retain closures, and the reload "
    "protocol (store only the Ok payload of a fully `?`-propagated parse).",
    ["aqfacts MIR extraction", "arc_swap store/load semantics", "hashbrown HashSet::contains", "hex::decode_to_slice", "str::trim"],
    ["hex case-insensitivity and whitespace trimming are properties of `hex` and `str::trim` (trusted)"],
)
AL = "aquatic_common::access_list"
ALLOWS = AL + "::AccessList::allows"


@PROP.rule("R-C11-1", floor=2, doc="decision tables of AccessList::allows and AccessListArcSwap::allows")
def tables(fx):
    b = fx.fn(ALLOWS)
    ts = true_sets(fx, paths(fx, b))
    want = {frozenset(["mode is Allow", "HashSet::contains(self.0, info_hash)"]),
            frozenset(["mode is Deny", "!HashSet::contains(self.0, info_hash)"]),
            frozenset(["mode is Off"])}
    yield ob("R-C11-1", "table#AccessList::allows", ts == want, b, None, "allows() is true iff %s" % sorted(sorted(t) for t in ts),
             {"true_sets": sorted(sorted(t) for t in ts)})
    b = fx.fn("<arc_swap::ArcSwapAny as %s::AccessListQuery>::allows" % AL)
    ts = true_sets(fx, paths(fx, b))
    norm = set(frozenset(re.sub(r"ArcSwapAny::load\(self\)", "LIST", a) for a in t) for t in ts)
    want = {frozenset(["mode is Allow", "HashSet::contains(LIST.0, info_hash_bytes)"]),
            frozenset(["mode is Deny", "!HashSet::contains(LIST.0, info_hash_bytes)"]),
            frozenset(["mode is Off"])}
    yield ob("R-C11-1", "table#AccessListArcSwap::allows", norm == want, b, None, "allows() is true iff %s" % sorted(sorted(t) for t in norm),
             {"true_sets": sorted(sorted(t) for t in norm)})


# handler -> (function, sink regexes (calls that reach swarm state or per-connection announce bookkeeping),
#             expected guard rendering, request-hash rendering)
HANDLERS = {
    "udp_mio": ("aquatic_udp::workers::socket::mio::WorkerSharedData::handle_request",
                [r"swarm::TorrentMaps::announce$"],
                "AccessList::allows(Cache::load(self.access_list_cache), self.config.access_list.mode, (request as Announce).0.info_hash.0)"),
    "udp_uring": ("aquatic_udp::workers::socket::uring::SocketWorker::handle_request",
                  [r"swarm::TorrentMaps::announce$"],
                  "AccessList::allows(Cache::load(self.access_list_cache), self.config.access_list.mode, (request as Announce).0.info_hash.0)"),
    "http": ("aquatic_http::workers::socket::connection::Connection::handle_request::{closure#0}",
             [r"Senders.*::send_to$"],
             "AccessList::allows(Cache::load(self.access_list_cache), self.config.access_list.mode, (request as Announce).0.info_hash.0)"),
    "ws": ("aquatic_ws::workers::socket::connection::ConnectionReader::handle_announce_request::{closure#0}",
           [r"Senders.*::send_to$", r"HashMap.*::entry$", r"VacantEntry.*::insert$", r"HashMap.*::remove$"],
           "AccessList::allows(Cache::load(self.access_list_cache), self.config.access_list.mode, request.info_hash.0)"),
}


def is_announce_sink(tr, e):
    """http's send_to also carries scrape parts: only the ChannelRequest::Announce sends are announce sinks"""
    if tr != "http":
        return True
    return any(x[0] == "agg" and x[1].endswith("ChannelRequest") and x[2] == "Announce" for a in e[2] for x in sym.walk(a))


@PROP.rule("R-C11-2", floor=12, doc="gate before state in the four announce handlers; false edge answers with an error")
def gate(fx):
    for tr, (fn, sinks, guard_txt) in HANDLERS.items():
        b = fx.fn(fn)
        ps = cpaths(fx, b)
        rx = [re.compile(s) for s in sinks]
        n_sink = 0
        unguarded = []
        guards = set()
        for p in ps:
            for i, e in enumerate(p.effects):
                if e[0] != "call" or not any(r.search(e[1]) for r in rx) or not is_announce_sink(tr, e):
                    continue
                n_sink += 1
                okg = False
                for a in p.atoms:
                    ab = sym.atom_bool(a)
                    if ab and a["neff"] <= i and ab[1] is True and ab[0][0] == "call" and ab[0][1] == ALLOWS:
                        okg = True
                        guards.add(show(strip_after(ab[0])))
                if not okg:
                    unguarded.append("%s @%s" % (sym.tail2(e[1]), e[4]))
        yield ob("R-C11-2", "gate#%s#dominates" % tr, n_sink > 0 and not unguarded, b, None,
                 "%d sink occurrences on %d paths; not preceded by a true allows() edge: %s" % (n_sink, len(ps), sorted(set(unguarded))),
                 {"sinks": n_sink, "paths": len(ps), "unguarded": sorted(set(unguarded))})
        yield ob("R-C11-2", "gate#%s#arguments" % tr, guards == {guard_txt}, b, None,
                 "guard evaluated as %s; required: configured mode and this request's info hash" % sorted(guards), {"guard": sorted(guards)})
        # the hash that is gated is the hash that is sent on
        same = True
        if tr in ("http", "ws"):
            for p in ps:
                for e in p.effects:
                    if e[0] == "call" and re.search(r"Senders.*::send_to$", e[1]) and is_announce_sink(tr, e):
                        s = show(strip_after(e[2][2]))
                        want = "request: (request as Announce).0" if tr == "http" else "AnnounceRequest{0: request}"
                        if want not in s:
                            same = False
        yield ob("R-C11-2", "gate#%s#same_request" % tr, same, b, None, "the forwarded request is the gated one: %s" % same, trivial=True)
        # false edge: error reply, and no sink
        errs = set()
        n_false = 0
        okf = True
        for p in ps:
            neg = [a for a in p.atoms if (sym.atom_bool(a) or (None, None))[1] is False and a["discr"][0] == "call" and a["discr"][1] == ALLOWS]
            if not neg or p.end != "return":
                continue
            n_false += 1
            if tr.startswith("udp"):
                r = strip_after(p.ret)
                agg = [x for x in sym.walk(r) if x[0] == "agg" and x[1].endswith("::Response") and x[2] == "Error"]
                txid = [show(dict(x[3])["transaction_id"]) for x in sym.walk(r) if x[0] == "agg" and x[1].endswith("ErrorResponse")]
                errs.add("Response::Error txid=%s" % txid)
                if not (agg and txid == ["(request as Announce).0.transaction_id"] and r[0] == "agg" and r[2] == "Some"):
                    okf = False
            elif tr == "http":
                r = strip_after(p.ret)
                agg = [x for x in sym.walk(r) if x[0] == "agg" and x[1].endswith("::Response") and x[2] == "Failure"]
                errs.add(show(r)[:90])
                if not (agg and r[0] == "agg" and r[2] == "Ok"):
                    okf = False
            else:
                c = p.calls(r"ConnectionReader.*::send_error_response$")
                errs.add("send_error_response x%d" % len(c))
                if len(c) != 1:
                    okf = False
        yield ob("R-C11-2", "gate#%s#false_edge" % tr, okf and n_false > 0, b, None,
                 "%d paths through the false edge; each yields %s" % (n_false, sorted(errs)), {"false_paths": n_false, "replies": sorted(errs)})


CLEANERS = {
    "udp": ("aquatic_udp::swarm::TorrentMapShards::clean_and_get_statistics", "^access_list_mode"),
    "http": ("aquatic_http::workers::swarm::storage::TorrentMap::clean", "^config.access_list.mode"),
    "ws": ("aquatic_ws::workers::swarm::storage::TorrentMap::clean", "^config.access_list.mode"),
}
CLEAN_ENTRY = {
    "udp": "aquatic_udp::swarm::TorrentMaps::clean_and_update_statistics",
    "http": "aquatic_http::workers::swarm::storage::TorrentMaps::clean",
    "ws": "aquatic_ws::workers::swarm::storage::TorrentMaps::clean",
}


@PROP.rule("R-C11-3", floor=9, doc="cleaning: a torrent the current list forbids is dropped first, permitted ones are judged only on their peers")
def clean(fx):
    for tr, (fn, mode_txt) in CLEANERS.items():
        parent = fx.fn(fn)
        # the torrent-level retain closure = the closure passed to `retain` whose body calls allows()
        clo = None
        for line, callee, args in call_args(fx, parent, r"::retain$"):
            for a in args:
                if a[0] == "clo":
                    cb = fx.bodies.get(a[1])
                    if cb is not None and any(True for _ in cb.calls(re.escape(ALLOWS) + "$")):
                        clo = (cb, line, args[0])
        if clo is None:
            yield ob("R-C11-3", "clean#%s#closure" % tr, False, parent, None, "no retain closure consulting the access list")
            continue
        cb, line, recv = clo
        ps = [p for p in sym.Evaluator(fx, cb).run() if p.end == "return"]
        first = set()
        okfirst = True
        for p in ps:
            a0 = p.atoms[0] if p.atoms else None
            ab = sym.atom_bool(a0) if a0 else None
            if not (ab and ab[0][0] == "call" and ab[0][1] == ALLOWS and a0["neff"] <= 2):
                okfirst = False
            else:
                first.add(show(strip_after(ab[0])))
        want = "AccessList::allows(Cache::load(^access_list_cache), %s, info_hash.0)" % mode_txt
        yield ob("R-C11-3", "clean#%s#first_decision" % tr, okfirst and first == {want}, cb, None,
                 "first decision on all %d paths: %s" % (len(ps), sorted(first)), {"first": sorted(first)})
        neg = [p for p in ps if (sym.atom_bool(p.atoms[0]) or (None, None))[1] is False]
        okneg = len(neg) == 1 and strip_after(neg[0].ret) == ("c", "bool", "int", 0) and len(neg[0].atoms) == 1
        yield ob("R-C11-3", "clean#%s#forbidden_dropped" % tr, okneg, cb, None,
                 "forbidden torrent -> %s" % [show(p.ret) for p in neg], {"ret": [show(p.ret) for p in neg]})
        # key parameter is the map key of the torrents map being retained
        rr = fp(strip_after(recv))
        okrecv = rr in ("self.torrents",) or "RwLock::write" in show(recv)
        yield ob("R-C11-3", "clean#%s#receiver" % tr, okrecv, parent, line, "retain applied to %s" % show(recv)[:100], trivial=True)
        # the cache comes from the shared ArcSwap handed to the clean entry point
        e = fx.fn(CLEAN_ENTRY[tr])
        caches = set()
        for l2, c2, a2 in call_args(fx, e, re.escape(fn) + "$"):
            for a in a2:
                if has_call(a, r"create_access_list_cache$"):
                    caches.add(show(a))
        yield ob("R-C11-3", "clean#%s#cache_origin" % tr, caches == {"create_access_list_cache(access_list)"}, e, None,
                 "access list cache passed to the cleaner: %s" % sorted(caches), {"cache": sorted(caches)})
        roots = param_roots(fx, e, param_index(e, "access_list"))
        shown = sorted(set(fp(strip_after(x)) for c, l, x in roots))
        okroot = bool(roots) and all(s.endswith("access_list") for s in shown)
        yield ob("R-C11-3", "clean#%s#shared_list" % tr, okroot, e, None, "access_list <- %s" % shown, {"roots": shown})


@PROP.rule("R-C11-4", floor=6, doc="a failed reload keeps the old list: store only the Ok payload of a fully propagated parse")
def reload(fx):
    b = fx.fn("<arc_swap::ArcSwapAny as %s::AccessListQuery>::update" % AL)
    ps = [p for p in paths(fx, b) if p.end == "return"]
    stores = []
    for p in ps:
        for e in p.calls(r"ArcSwapAny.*::store$"):
            stores.append((p, e))
    oks = len(stores) == 1
    d = ""
    if oks:
        p, e = stores[0]
        arg = strip_after(e[2][1])
        d = show(arg)
        oks = d == "Arc::new(AccessList::create_from_path(config.path)?)"
        # and the store is on the Continue edge only
        tr = [a for a in p.atoms if a["discr"][0] == "discr" and a["discr"][1][0] == "try"]
        oks = oks and len(tr) == 1 and tr[0]["label"] == ("sw", 0)
    errp = [p for p in ps if has_call(p.ret, r"from_residual$")]
    oks = oks and len(errp) == 1 and not errp[0].calls(r"::store$")
    yield ob("R-C11-4", "reload#store_ok_payload", oks, b, None, "store(%s); error path stores nothing" % d, {"store_arg": d})
    who = sorted(set(bb.short for bb, i, t in who_calls(fx, r"arc_swap::ArcSwapAny.*::(store|swap|rcu|compare_and_swap)$")
                     if not in_test_code(bb) and "AccessList" in t["op_tys"][0]))
    yield ob("R-C11-4", "reload#who_stores", who == ["<arc_swap::ArcSwapAny as %s::AccessListQuery>::update" % AL], None, None,
             "ArcSwap writers: %s" % who, {"writers": who})
    # create_from_path: every fallible step is `?`-propagated; Ok only after the loop
    b = fx.fn(AL + "::AccessList::create_from_path")
    ps = [p for p in paths(fx, b) if p.end == "return"]
    good = ok_paths(ps)
    fall = {"File::open": 0, "Lines::next": 0, "insert_from_line": 0}
    okp = bool(good)
    for p in good:
        tried = [strip_after(a["discr"][1]) for a in p.atoms if a["discr"][0] == "discr" and a["discr"][1][0] == "try"]
        tried_sites = set()
        for t in tried:
            for x in sym.walk(t):
                if x[0] == "call":
                    tried_sites.add(x[3])
        if not all(a["label"] == ("sw", 0) for a in p.atoms if a["discr"][0] == "discr" and a["discr"][1][0] == "try"):
            okp = False
        for e in p.calls(r"fs::File::open$|insert_from_line$"):
            k = "File::open" if e[1].endswith("open") else "insert_from_line"
            fall[k] += 1
            if e[3] not in tried_sites:
                okp = False
        for e in p.calls(r"Lines.*Iterator>::next$"):
            # a produced line (Some) must be `?`-checked
            some = [a for a in p.atoms if a["discr"][0] == "discr" and a["discr"][1][0] == "call" and a["discr"][1][3] == e[3]]
            if some and some[0]["label"] == ("sw", 1):
                fall["Lines::next"] += 1
                if e[3] not in tried_sites:
                    okp = False
        r = strip_after(p.ret)
        if not (r[0] == "agg" and r[2] == "Ok" and show(r[3][0][1]) == "<AccessList as Default>::default()"):
            okp = False
        # the last atom of an Ok path is the iterator's None
        last = p.atoms[-1]
        if not (last["discr"][0] == "discr" and "Iterator>::next" in show(last["discr"][1]) and last["label"] != ("sw", 1)):
            okp = False
    yield ob("R-C11-4", "reload#parse_propagates", okp and all(v > 0 for v in fall.values()), b, None,
             "%d Ok paths (loop unrolled once); fallible steps checked on them: %s" % (len(good), fall), {"ok_paths": len(good), "checked": fall})
    # no fallible result is discarded anywhere in the function (let _ = / unwrap_or / ok())
    bad = [t["line"] for i, t in b.calls(r"Result.*::(ok|unwrap_or|unwrap_or_default|unwrap_or_else|is_ok|is_err)$")]
    yield ob("R-C11-4", "reload#no_swallow", not bad, b, None, "Result-discarding calls: %s" % bad, trivial=True)
    b = fx.fn(AL + "::AccessList::insert_from_line")
    ps = [p for p in paths(fx, b) if p.end == "return"]
    ins = [show(strip_after(e[2][1])) for p in ps for e in p.calls(r"HashSet.*::insert$")]
    yield ob("R-C11-4", "reload#insert_from_line", set(ins) == {"parse_info_hash(line)?"} and len(ok_paths(ps)) == 1, b, None,
             "inserts %s" % sorted(set(ins)), {"inserted": sorted(set(ins))})
    b = fx.fn(AL + "::parse_info_hash")
    ps = [p for p in paths(fx, b) if p.end == "return"]
    good = ok_paths(ps)
    dec = [show(strip_after(a)) for p in ps for e in p.calls(r"hex::decode_to_slice$") for a in e[2]]
    okh = len(good) == 1 and set(dec) == {"line", "[0:u8; 20]"}
    if okh:
        r = strip_after(good[0].ret)
        okh = r[0] == "agg" and r[2] == "Ok" and r[3][0][1][0] == "repeat" and str(r[3][0][1][2]) == "20"
        tr = [a for a in good[0].atoms if a["discr"][0] == "discr" and a["discr"][1][0] == "try"]
        okh = okh and len(tr) == 1 and has_call(tr[0]["discr"][1], r"decode_to_slice$")
    yield ob("R-C11-4", "reload#parse_info_hash", okh, b, None, "decode_to_slice(%s) into exactly 20 bytes, error propagated" % sorted(set(dec)), {"args": sorted(set(dec))})


@PROP.rule("R-C11-5", floor=6, doc="the SIGUSR1 handlers reload the very list the workers read; update_access_list reports failure")
def signals(fx):
    b = fx.fn(AL + "::update_access_list")
    ps = [p for p in paths(fx, b) if p.end == "return"]
    outcomes = set()
    for p in ps:
        on = [sym.atom_bool(a) for a in p.atoms]
        on = [x[1] for x in on if x and x[0][0] == "call" and x[0][1].endswith("AccessListMode::is_on")]
        upd = [sym.atom_variant(fx, a) for a in p.atoms]
        upd = [u[1][0] for u in upd if u and u[0][0] == "call" and u[0][1].endswith("AccessListQuery>::update") and u[2]]
        r = strip_after(p.ret)
        outcomes.add((tuple(on), tuple(upd), r[2] if r[0] == "agg" else show(r)))
    want = {((True,), ("Ok",), "Ok"), ((True,), ("Err",), "Err"), ((False,), (), "Ok")}
    yield ob("R-C11-5", "signals#update_access_list", outcomes == want, b, None, "outcomes %s" % sorted(outcomes), {"outcomes": sorted(map(str, outcomes))})
    for crate in ("aquatic_udp", "aquatic_http", "aquatic_ws"):
        run = fx.fn(crate + "::run")
        sites = []
        for body in [run] + [c for c in fx.bodies.values() if c.name.startswith(run.name + "::{closure") and c.unit == run.unit]:
            for line, callee, args in call_args(fx, body, re.escape(AL) + r"::update_access_list$"):
                sites.append((body.short.replace(crate + "::", ""), show(args[0]), show(args[1])))
        oks = len(sites) >= 2 and all(s[1].endswith("config.access_list") and s[2].endswith("access_list") and "state" in s[2].lower() for s in sites)
        yield ob("R-C11-5", "signals#%s#reload_sites" % crate, oks, run, None, "update_access_list call sites: %s" % sites, {"sites": [list(s) for s in sites]})
        # the initial load's error aborts start-up (`?`), i.e. it is tried in run()
        tried = False
        for p in cpaths(fx, run):
            for a in p.atoms:
                if a["discr"][0] == "discr" and a["discr"][1][0] == "try" and has_call(a["discr"][1], r"update_access_list$"):
                    tried = True
            if tried:
                break
        yield ob("R-C11-5", "signals#%s#initial_load_checked" % crate, tried, run, None, "initial update_access_list result is `?`-propagated: %s" % tried, trivial=True)
