"""C10 - peers and offers expire exactly at their deadline, never earlier."""
import re

from aq import sym
from aq.core import Property
from aq.facts import AnchorMissing
from aq.sym import show, strip_after
from aq.util import (call_args, closure_env, cpaths, fp, has_call, in_test_code, ob, param_index,
                     param_roots, path_desc, paths, unwrap_origin, who_calls, calls_in, const_int)

PROP = Property(
    "C10", "proof",
    "Expiry semantics decided from decision tables and dataflow origins: valid() is exactly `deadline > now`, "
    "deadlines are exactly `clock sample + configured age`, every cleaning predicate over peers and pending "
    "offers is exactly valid(now) of the retained element with `now` sampled from the tracker's single "
    "ServerStartInstant, and every non-stopped announce stores a deadline built from max_peer_age "
    "(max_offer_age for offers).",
    ["aqfacts MIR extraction", "IndexMap/ArrayVec/HashMap `retain` keep exactly the elements whose closure returns true",
     "std::time::Instant monotonic clock"],
    ["timer cadence (when a cleaning pass actually runs) is not decided statically"],
)
C = "aquatic_common"


def single_ret(fx, name):
    b = fx.fn(name)
    ps = [p for p in paths(fx, b) if p.end == "return"]
    return b, ps


@PROP.rule("R-C10-1", floor=5, doc="decision tables of ValidUntil::{valid,new,new_with_now} and ServerStartInstant::seconds_elapsed")
def tables(fx):
    b, ps = single_ret(fx, C + "::ValidUntil::valid")
    got = [show(p.ret) for p in ps]
    yield ob("R-C10-1", "table#ValidUntil::valid", got == ["Gt(self.0.0, now.0)"], b, None,
             "valid() = %s; required: deadline > now (strict)" % got, {"table": got})
    b, ps = single_ret(fx, C + "::ValidUntil::new")
    okn = len(ps) == 1
    r = ps[0].ret if okn else None
    okn = okn and r[0] == "call" and r[1].endswith("Option::map") and show(r[2][0]) == "ServerStartInstant::seconds_elapsed(start_instant)" \
        and r[2][1][0] == "clo" and [show(x) for x in r[2][1][2]] == ["offset_seconds"]
    cb, cps = single_ret(fx, C + "::ValidUntil::new::{closure#0}")
    cgot = [show(p.ret) for p in cps]
    want = "ValidUntil::ValidUntil{0: SecondsSinceServerStart::SecondsSinceServerStart{0: Add(elapsed.0, ^offset_seconds)}}"
    yield ob("R-C10-1", "table#ValidUntil::new", okn and cgot == [want], b, None,
             "new() = %s with closure %s" % (show(r) if r else None, cgot), {"outer": show(r) if r else None, "closure": cgot})
    b, ps = single_ret(fx, C + "::ValidUntil::new_with_now")
    got = [show(p.ret) for p in ps]
    want = "ValidUntil::ValidUntil{0: SecondsSinceServerStart::SecondsSinceServerStart{0: Add(now.0, offset_seconds)}}"
    yield ob("R-C10-1", "table#ValidUntil::new_with_now", got == [want], b, None, "new_with_now() = %s" % got, {"table": got})
    b, ps = single_ret(fx, C + "::ServerStartInstant::seconds_elapsed")
    got = [show(p.ret) for p in ps]
    want = "Option::map(Instant::checked_duration_since(Instant::now(), self.0), closure<ServerStartInstant::seconds_elapsed::{closure#0}>())"
    cb, cps = single_ret(fx, C + "::ServerStartInstant::seconds_elapsed::{closure#0}")
    T = [r"Result::expect$", r"Result::unwrap$", r"TryInto>::try_into$", r"::try_into$"]
    cgot = [show(unwrap_origin(dict(p.ret[3])["0"], T)) if p.ret[0] == "agg" else show(p.ret) for p in cps]
    okc = cgot == ["Duration::as_secs(dur)"] and all(p.ret[1].endswith("SecondsSinceServerStart") for p in cps)
    t = [e for p in cps for e in p.calls(r"TryInto>::try_into$|::try_into$")]
    okc = okc and len(t) == 1 and t[0][6][:2] == ("u64", "u32")
    yield ob("R-C10-1", "table#seconds_elapsed", got == [want] and okc, b, None,
             "seconds_elapsed() = %s; closure -> whole seconds %s narrowed %s" % (got, cgot, t[0][6] if t else None),
             {"outer": got, "closure": cgot})
    b, ps = single_ret(fx, C + "::ServerStartInstant::new")
    got = [show(p.ret) for p in ps]
    yield ob("R-C10-1", "table#ServerStartInstant::new", got == ["ServerStartInstant::ServerStartInstant{0: Instant::now()}"], b, None,
             "%s" % got, {"table": got})


STORAGE = {
    "udp": ("aquatic_udp", r"^aquatic_udp::swarm::"),
    "http": ("aquatic_http", r"^aquatic_http::workers::swarm::storage::"),
    "ws": ("aquatic_ws", r"^aquatic_ws::workers::swarm::storage::"),
}
EXPECTED_CLEANERS = {
    "udp::SmallPeerMap::clean_and_get_num_peers", "udp::LargePeerMap::clean_and_get_num_peers",
    "http::SmallPeerMap::clean_and_get_num_peers", "http::LargePeerMap::clean_and_get_num_peers",
    "ws::TorrentData::clean_and_get_num_peers", "ws::TorrentData::clean_and_get_num_peers::{closure#0}",
}


def retain_sites(fx):
    """(tracker, parent body, retain call line, receiver expr, closure body) for every `retain` in the storage modules
    whose element type carries a deadline."""
    out = []
    for tr, (crate, rx) in STORAGE.items():
        for b in fx.fns(rx, crates=[crate]):
            if in_test_code(b) or b.kind == "promoted":
                continue
            if not any(True for _ in b.calls(r"::retain$")):
                continue
            for line, callee, args in call_args(fx, b, r"::retain$"):
                clo = [a for a in args if a[0] == "clo"]
                if not clo:
                    continue
                cb = fx.bodies.get(clo[0][1])
                if cb is None:
                    continue
                out.append((tr, b, line, args[0], cb, callee))
    return out


@PROP.rule("R-C10-2", floor=12, doc="every cleaning predicate over peers / pending offers is valid(now) of the retained element")
def cleaners(fx):
    seen = set()
    for tr, b, line, recv, cb, callee in retain_sites(fx):
        ps = [p for p in cpaths(fx, cb) if p.end == "return"]
        uses_deadline = any(has_call(strip_after(p.ret), r"ValidUntil::valid$") or any(re.search(r"ValidUntil::valid$", e[1]) for e in p.calls()) for p in ps)
        elem_has_deadline = "valid_until" in " ".join(show(x) for p in ps for x in [p.ret]) or uses_deadline
        # torrent-level retains (closure decides via num_peers / access list) are C07/C11 business
        if not uses_deadline:
            # a peer-level retain that does not consult the deadline at all is caught by the floor + expected set below
            continue
        short = "%s::%s" % (tr, b.short.split("::", 1)[1].split("storage::")[-1].split("swarm::")[-1])
        seen.add(short)
        key = "retain#%s" % short
        # which parameter is the retained element?  |_, peer| -> _3 ; |(_, peer)| -> _2.1 ; |_, valid_until| -> _3
        rets = set()
        okr = bool(ps)
        for p in ps:
            r = strip_after(p.ret)
            rets.add(show(r))
            if not (r[0] == "call" and r[1] == C + "::ValidUntil::valid"):
                okr = False
                continue
            dl, now = r[2]
            root, names = sym_field_root(dl)
            # deadline must be (a field of) a closure parameter = the element handed in by retain
            if not (root[0] == "p" and root[1] >= 2):
                okr = False
            if names and names[-1] != "valid_until":
                okr = False
            if not names and "ValidUntil" not in cb.local_ty(root[1]):
                okr = False
            # `now` must be the parent's `now` parameter (chased to the clock below)
            if not (now[0] == "p" and now[2] == "now") and not (now[0] == "up"):
                okr = False
        yield ob("R-C10-2", key + "#predicate", okr, cb, None,
                 "closure returns %s on its %d paths; required: exactly ValidUntil::valid(<element>.valid_until, now)" % (sorted(rets), len(ps)),
                 {"returns": sorted(rets), "receiver": show(recv), "retain": callee})
        # receiver is the stored collection itself
        rroot, rnames = sym_field_root(recv)
        okrecv = (rroot[0] == "p" and rroot[2] == "self" and rnames in (["0"], ["peers"])) or \
                 (rroot[0] == "p" and rnames == ["expecting_answers"])
        yield ob("R-C10-2", key + "#receiver", okrecv, b, line,
                 "retain is applied to %s" % show(recv), {"receiver": show(recv)})
    missing = EXPECTED_CLEANERS - seen
    yield ob("R-C10-2", "retain#coverage", not missing, None, None,
             "deadline-based retain closures found for %s; missing %s" % (sorted(seen), sorted(missing)), {"found": sorted(seen)})


def sym_field_root(e):
    names = []
    e = strip_after(e)
    while e[0] == "f":
        names.append(str(e[2]))
        e = e[1]
    names.reverse()
    return e, names


CLEAN_ENTRY = {
    "udp": "aquatic_udp::swarm::TorrentMaps::clean_and_update_statistics",
    "http": "aquatic_http::workers::swarm::storage::TorrentMaps::clean",
    "ws": "aquatic_ws::workers::swarm::storage::TorrentMaps::clean",
}


@PROP.rule("R-C10-2n", floor=6, doc="`now` of every cleaner is one seconds_elapsed() sample of the tracker's ServerStartInstant")
def now_origin(fx):
    for tr, b, line, recv, cb, callee in retain_sites(fx):
        ps = [p for p in cpaths(fx, cb) if p.end == "return"]
        if not any(any(re.search(r"ValidUntil::valid$", e[1]) for e in p.calls()) for p in ps):
            continue
        # walk up to the function that owns the `now` parameter
        owner = b
        while owner.kind in ("closure", "coroutine"):
            owner = fx.bodies[owner.parent]
        try:
            idx = param_index(owner, "now")
        except AnchorMissing:
            yield ob("R-C10-2n", "now#%s" % owner.short, False, owner, None, "cleaner has no `now` parameter")
            continue
        roots = param_roots(fx, owner, idx)
        shown = sorted(set("%s: %s" % (c.short.split("::")[-1], show(e)) for c, l, e in roots))
        okn = bool(roots)
        for c, l, e in roots:
            o = unwrap_origin(e)
            if o[0] == "vf" and o[2] == "Some":
                o = o[1]
            good = o[0] == "call" and o[1] == C + "::ServerStartInstant::seconds_elapsed"
            # udp: the cleaning thread passes its sample as a parameter of clean_and_update_statistics
            good = good or (o[0] == "p" and c.short == CLEAN_ENTRY["udp"] and o[2] == "seconds_since_server_start")
            if not good:
                okn = False
        yield ob("R-C10-2n", "now#%s::%s" % (tr, owner.short.split("::", 2)[-1]), okn, owner, None,
                 "now <- %s" % shown, {"roots": shown})
    # udp: the parameter of the entry point is itself a seconds_elapsed() sample in the cleaning thread
    e = fx.fn(CLEAN_ENTRY["udp"])
    roots = param_roots(fx, e, param_index(e, "seconds_since_server_start"))
    shown = sorted(set("%s: %s" % (c.short, show(x)) for c, l, x in roots))
    oku = bool(roots)
    for c, l, x in roots:
        o = unwrap_origin(x)
        if o[0] == "vf" and o[2] == "Some":
            o = o[1]
        if not (o[0] == "call" and o[1] == C + "::ServerStartInstant::seconds_elapsed"):
            oku = False
    yield ob("R-C10-2n", "now#udp::entry", oku, e, None, "seconds_since_server_start <- %s" % shown, {"roots": shown})


def deadline_ok(e, age_field):
    """expr is ValidUntil::new(<server_start_instant>, <config>.cleaning.<age_field>) possibly unwrapped"""
    o = strip_after(e)
    for _ in range(6):
        o = unwrap_origin(o, [r"Option::expect$", r"Option::unwrap$", r"Option::unwrap_or_else$", r"Clone>::clone$", r"ToOwned>::to_owned$", r"::to_owned$"])
        if o[0] == "vf" and o[2] == "Some":
            o = o[1]
            continue
        break
    if not (o[0] == "call" and o[1] == C + "::ValidUntil::new"):
        return False, show(o)
    inst, age = o[2]
    r1, n1 = sym_field_root(inst)
    r2, n2 = sym_field_root(age)
    good = n1[-1:] == ["server_start_instant"] or (r1[0] in ("p", "up") and (r1[2] if r1[0] == "p" else r1[1]).endswith("server_start_instant"))
    good = good and n2[-2:] == ["cleaning", age_field]
    return good, show(o)


@PROP.rule("R-C10-3", floor=9, doc="every non-stopped announce stores a fresh deadline = clock sample + max_peer_age")
def refresh(fx):
    # --- UDP and HTTP: the inserted Peer carries the handler's valid_until parameter on every inserting path
    for tr, fn in (("udp", "aquatic_udp::swarm::PeerMap::announce"),
                   ("http", "aquatic_http::workers::swarm::storage::TorrentData::upsert_peer_and_get_response_peers")):
        b = fx.fn(fn)
        ps = [p for p in cpaths(fx, b) if p.end == "return"]
        n_ins = 0
        okp = True
        vals = set()
        for p in ps:
            for e in p.calls(r"PeerMap::insert$"):
                n_ins += 1
                peer = strip_after(e[2][2])
                if not (peer[0] == "agg" and peer[1].endswith("::Peer")):
                    okp = False
                    vals.add(show(peer)[:80])
                    continue
                v = dict(peer[3]).get("valid_until")
                vals.add(show(v))
                if not (v and v[0] == "p" and v[2] == "valid_until"):
                    okp = False
        yield ob("R-C10-3", "refresh#%s#stored_deadline" % tr, okp and n_ins > 0, b, None,
                 "Peer.valid_until on %d inserting path-sites: %s" % (n_ins, sorted(vals)), {"values": sorted(vals), "sites": n_ins})
        roots = param_roots(fx, b, param_index(b, "valid_until"))
        shown = sorted(set("%s: %s" % (c.short.split("::", 2)[-1], show(e)) for c, l, e in roots))
        yield ob("R-C10-3", "refresh#%s#param_chain" % tr, bool(roots) and all(is_cell_read(e) for c, l, e in roots), b, None,
                 "valid_until <- %s" % shown, {"roots": shown})
    # UDP: the worker's peer_valid_until field only ever holds ValidUntil::new(start, max_peer_age)
    for backend, fns in (("mio", ["aquatic_udp::workers::socket::mio::run"]),
                         ("uring", ["aquatic_udp::workers::socket::uring::SocketWorker::run", "aquatic_udp::workers::socket::uring::SocketWorker::handle_cqe"])):
        srcs = []
        for fn in fns:
            b = fx.fn(fn)
            for p in cpaths(fx, b):
                for e in p.effects:
                    if e[0] == "agg" and re.search(r"::(WorkerSharedData|SocketWorker)$", e[1]):
                        v = dict(e[3]).get("peer_valid_until")
                        if v is not None:
                            srcs.append((b, e[4], v))
                    if e[0] == "write" and e[5] and e[5][-1] == ("f", "peer_valid_until"):
                        srcs.append((b, e[3], e[2]))
        res = {}
        kinds = set()
        for b, line, v in srcs:
            good, s = deadline_ok(v, "max_peer_age")
            res[(b.short.split("::")[-1], s)] = good
        for fn in fns:
            for p in cpaths(fx, fx.fn(fn)):
                for e in p.effects:
                    if e[0] == "agg" and re.search(r"::(WorkerSharedData|SocketWorker)$", e[1]) and dict(e[3]).get("peer_valid_until") is not None:
                        kinds.add("init")
                    if e[0] == "write" and e[5] and e[5][-1] == ("f", "peer_valid_until"):
                        kinds.add("refresh")
        yield ob("R-C10-3", "refresh#udp#%s#field_sources" % backend, kinds == {"init", "refresh"} and all(res.values()), fx.fn(fns[0]), None,
                 "peer_valid_until is assigned from: %s" % sorted(k[1] for k in res), {"sources": sorted("%s: %s" % k for k in res)})
    # HTTP: the Rc<RefCell<ValidUntil>> is initialised and refreshed from ValidUntil::new(start, max_peer_age)
    b = fx.fn("aquatic_http::workers::swarm::run_swarm_worker::{closure#0}")
    res = {}
    for body in [b] + descendants(fx, b):
        for p in cpaths(fx, body):
            for e in p.effects:
                if e[0] == "call" and e[1].endswith("RefCell::new") and "ValidUntil" in " ".join(e[6]):
                    good, s = deadline_ok(e[2][0], "max_peer_age")
                    res[("init", s)] = good
                if e[0] == "write" and has_call(e[1], r"RefCell::borrow_mut$") and "ValidUntil" in show(e[1]):
                    good, s = deadline_ok(e[2], "max_peer_age")
                    res[("refresh", s)] = good
    kinds = set(k[0] for k in res)
    yield ob("R-C10-3", "refresh#http#cell_sources", kinds == {"init", "refresh"} and all(res.values()), b, None,
             "peer_valid_until cell: %s" % sorted(res), {"sources": sorted("%s: %s" % k for k in res)})
    # --- WS: every arm that keeps or creates the peer writes a deadline built from max_peer_age
    b = fx.fn("aquatic_ws::workers::swarm::storage::TorrentData::insert_or_update_peer")
    ps = [p for p in cpaths(fx, b) if p.end == "return"]
    arms = {}
    for p in ps:
        st = [a for a in p.atoms if a["discr"][0] == "discr" and "PeerStatus" in (a["discr"][2] or "")]
        en = [a for a in p.atoms if a["discr"][0] == "discr" and "Entry" in (a["discr"][2] or "")]
        if not st or not en:
            continue
        s = sym.atom_variant(fx, st[-1])
        e = sym.atom_variant(fx, en[-1])
        arm = ("%s%s" % ("" if e[2] else "!", "|".join(e[1])), "%s%s" % ("" if s[2] else "!", "|".join(s[1])))
        wrote = None
        for ef in p.effects:
            if ef[0] == "write" and ef[5] and ef[5][-1] == ("f", "valid_until"):
                wrote = ef[2]
            if ef[0] == "call" and ef[1].endswith("VacantEntry::insert"):
                peer = strip_after(ef[2][1])
                if peer[0] == "agg":
                    wrote = dict(peer[3]).get("valid_until")
        arms.setdefault(arm, []).append(wrote)
    for arm, ws in sorted(arms.items()):
        stopped = "Stopped" in arm[1] and not arm[1].startswith("!")
        if stopped:
            continue
        okw = all(w is not None and deadline_ok(w, "max_peer_age")[0] for w in ws)
        yield ob("R-C10-3", "refresh#ws#%s/%s" % arm, okw, b, None,
                 "deadline written on this arm: %s" % sorted(set(show(strip_after(w))[:120] if w else "none" for w in ws)),
                 {"arm": list(arm)})
    yield ob("R-C10-3", "refresh#ws#arms", len([a for a in arms if "Stopped" not in a[1] or a[1].startswith("!")]) >= 4, b, None,
             "entry x status arms enumerated: %s" % sorted(arms), {"arms": sorted("%s/%s" % a for a in arms)}, trivial=True)
    # offers: the expectation deadline is built from max_offer_age
    b = fx.fn("aquatic_ws::workers::swarm::storage::TorrentData::handle_offers")
    vals = {}
    for p in cpaths(fx, b):
        for e in p.calls(r"IndexMap.*::insert$|::insert$"):
            if len(e[2]) == 3 and "expecting_answers" in show(e[2][0]):
                good, s = deadline_ok(e[2][2], "max_offer_age")
                vals[s] = good
    yield ob("R-C10-3", "refresh#ws#offer_deadline", bool(vals) and all(vals.values()), b, None,
             "expecting_answers.insert(.., %s)" % sorted(vals), {"deadline": sorted(vals)})


def descendants(fx, body):
    out = []
    stack = [body]
    while stack:
        x = stack.pop()
        for c in fx.children(x):
            out.append(c)
            stack.append(c)
    return out


def is_cell_read(e):
    """udp: self.peer_valid_until ; http: value read out of the peer_valid_until RefCell"""
    s = show(strip_after(e))
    return s.endswith(".peer_valid_until") or ("peer_valid_until" in s and "RefCell::borrow" in s)


@PROP.rule("R-C10-4", floor=3, doc="one clock per tracker: a single ServerStartInstant::new() call site")
def one_clock(fx):
    for crate in ("aquatic_udp", "aquatic_http", "aquatic_ws"):
        sites = [(b, t) for b, i, t in who_calls(fx, r"^aquatic_common::ServerStartInstant::new$", crates=[crate]) if not in_test_code(b)]
        yield ob("R-C10-4", "clock#%s" % crate, len(sites) == 1, sites[0][0] if sites else None, sites[0][1]["line"] if sites else None,
                 "ServerStartInstant::new() call sites: %s" % [b.short for b, t in sites], {"sites": [b.short for b, t in sites]})
    # deadlines are only built by the constructors; new_raw is confined to the documented ws fallback
    raw = [(b, t) for b, i, t in who_calls(fx, r"^aquatic_common::ValidUntil::new_raw$") if not in_test_code(b)]
    allowed = {"aquatic_ws::workers::swarm::storage::TorrentData::insert_or_update_peer::{closure#0}"}
    yield ob("R-C10-4", "ctor#new_raw", set(b.short for b, t in raw) <= allowed, None, None,
             "ValidUntil::new_raw callers outside tests: %s" % sorted(set(b.short for b, t in raw)), {"callers": sorted(set(b.short for b, t in raw))})
    lit = []
    for b in fx.bodies.values():
        if b.crate == "aquatic_common" or in_test_code(b):
            continue
        for i, si, s in b.assigns():
            a = s["rv"].get("agg")
            if a and a.get("adt") in (C + "::ValidUntil", C + "::SecondsSinceServerStart"):
                lit.append(b.short)
    yield ob("R-C10-4", "ctor#literal", not lit, None, None, "ValidUntil/SecondsSinceServerStart literals outside aquatic_common: %s" % lit, trivial=True)


@PROP.rule("R-C10-6", floor=3, doc="every cleaning pass runs the cleaner of both address families, whatever the configuration (IPv4-mapped peers of a dual-stack "
                                   "IPv6 socket live in the IPv4 map even when no IPv4 socket is served)")
def both_families(fx):
    per_family = {"udp": r"TorrentMapShards.*::clean_and_get_statistics$", "http": r"storage::TorrentMap.*::clean$", "ws": r"storage::TorrentMap::clean$"}
    for tr, name in CLEAN_ENTRY.items():
        b = fx.fn(name)
        n = 0
        bad = set()
        for p in cpaths(fx, b):
            if p.end != "return":
                continue
            n += 1
            no_clock = False
            for a in p.atoms:
                v = sym.atom_variant(fx, a)
                if v and "seconds_elapsed" in show(v[0]) and ((v[1] == ["Some"] and not v[2]) or (v[1] == ["None"] and v[2])):
                    no_clock = True
            if no_clock:
                continue
            recv = sorted({show(strip_after(e[2][0])).rstrip("'") for e in p.calls(per_family[tr])})
            if recv != ["self.ipv4", "self.ipv6"]:
                bad.add("a pass cleans only %s" % recv)
        yield ob("R-C10-6", "families#%s#both_cleaned" % tr, n >= 1 and not bad, b, None,
                 "%d returning paths of the cleaning entry point; each with a clock sample cleans self.ipv4 and self.ipv6: %s" % (n, sorted(bad) or "yes"), {"paths": n})
