"""C16 - HTTP tracker: one well-framed reply per request; workers are invisible (shape clauses)."""
import re

from aq import sym
from aq.core import Property
from aq.sym import show, strip_after
from aq.util import call_args, cpaths, fp, has_call, calls_in, in_test_code, ob, paths, who_calls, const_int, const_str

PROP = Property(
    "C16", "other",
    "End-to-end behaviour of a running server is not statically decidable; decided are the clauses whose truth is "
    "in the shape of the code: the framing arithmetic of write_response (Content-Length = body + trailer, bytes "
    "sent = header + body + trailer, digits blanked before being rewritten, 8 digit cells are enough), one routing "
    "function for announces and every scrape part, truncation to max_scrape_torrents before the fan-out over swarm "
    "workers, and the read < handle < write order of the connection loop with exactly one write per request.",
    ["aqfacts MIR extraction", "glommio / futures IO", "C14 (reply bodies)", "C18 (buffer sizes)"],
    ["TCP segmentation, executor scheduling, ordering across connections and error isolation are not decided"],
)
C = "aquatic_http::workers::socket::connection"


def norm(e, body):
    e = sym.subst(strip_after(e), body, ("up", "BODY"))
    s = show(e).replace("^BODY", "BODY")
    s = s.replace("Vec::len(const(ptr))", "H")
    s = s.replace("<impl [T]>::len('HTTP/1.1 200 OK\\r\\nContent-Length: ')", "A").replace("<impl [T]>::len('        ')", "B")
    s = s.replace("<impl IndexMut for [T; N]>::index_mut(self.response_buffer, ", "buf[").replace("<impl Index for [T; N]>::index(self.response_buffer, ", "buf[")
    return s


@PROP.rule("R-C16-1", floor=7, doc="framing arithmetic of write_response")
def framing(fx):
    b = fx.fn(C + "::Connection::write_response::{closure#0}")
    ps = [p for p in cpaths(fx, b) if p.end == "return" and show(strip_after(p.ret)).startswith("Result::Ok")]
    res = {}
    for p in ps:
        wb = p.calls(r"Response::write_bytes$")
        if len(wb) != 1:
            res.setdefault("write_bytes", set()).add("x%d" % len(wb))
            continue
        tried = [strip_after(a["discr"][1]) for a in p.atoms if a["discr"][0] == "discr" and a["discr"][1][0] == "try" and has_call(a["discr"][1], r"Response::write_bytes$")]
        body = ("unwrap", tried[0][1]) if tried else None
        if body is None:
            res.setdefault("write_bytes", set()).add("result not checked")
            continue
        res.setdefault("body_target", set()).add(norm(wb[0][2][1], body))
        g = [sym.atom_bool(a) for a in p.atoms]
        g = [(norm(x[0], body), x[1]) for x in g if x and strip_after(x[0])[0] == "bin" and "response_buffer" in show(x[0])]
        res.setdefault("guard", set()).update(g)
        copies = [(i, e) for i, e in enumerate(p.effects) if e[0] == "call" and e[1].endswith("copy_from_slice")]
        cp = [(i, norm(e[2][0], body), norm(e[2][1], body)) for i, e in copies]
        res.setdefault("copies", set()).add(tuple((d, s) for _, d, s in cp))
        fm = [norm(e[2][1], body) for e in p.calls(r"itoa::Buffer::format$")]
        res.setdefault("formatted", set()).update(fm)
        wr = [(i, e) for i, e in enumerate(p.effects) if e[0] == "call" and re.search(r"AsyncWriteExt::(write|write_all)$", e[1])]
        res.setdefault("sent", set()).update(norm(e[2][1], body) for _, e in wr)
        res.setdefault("writes_per_call", set()).add(len(wr))
        if wr and copies:
            res.setdefault("order", set()).add(all(i < wr[0][0] for i, _ in copies))
    DIG = "<impl [T]>::len(<impl str>::as_bytes(Buffer::format(Buffer::new(), Add(BODY, 2:usize))))"
    want_copies = {(("buf[Range::Range{start: Add(H, BODY), end: Add(Add(H, BODY), 2:usize)})", "b'\\r\\n'"),
                    ("buf[Range::Range{start: A, end: Add(A, B)})", "'        '"),
                    ("buf[Range::Range{start: A, end: Add(A, %s)})" % DIG, "<impl str>::as_bytes(Buffer::format(Buffer::new(), Add(BODY, 2:usize)))"))}
    yield ob("R-C16-1", "framing#body_after_header", res.get("body_target") == {"buf[RangeFrom::RangeFrom{start: H})"}, b, None,
             "body is written at %s" % sorted(res.get("body_target", [])), {"target": sorted(res.get("body_target", []))})
    yield ob("R-C16-1", "framing#fullness_guard", res.get("guard") == {("Gt(Add(Add(H, BODY), 2:usize), <impl [T]>::len(self.response_buffer))", False)}, b, None,
             "success paths pass %s" % sorted(res.get("guard", [])), {"guard": sorted(map(str, res.get("guard", [])))})
    yield ob("R-C16-1", "framing#trailer_blank_digits", res.get("copies") == want_copies, b, None,
             "buffer writes in order (trailer after body, blank the 8 digit cells, then the digits at the same offset): %s" % sorted(res.get("copies", [])),
             {"copies": sorted(map(str, res.get("copies", [])))})
    yield ob("R-C16-1", "framing#content_length_value", res.get("formatted") == {"Add(BODY, 2:usize)"}, b, None,
             "Content-Length digits are itoa(%s); trailer literal has 2 bytes" % sorted(res.get("formatted", [])), {"formatted": sorted(res.get("formatted", []))})
    yield ob("R-C16-1", "framing#bytes_sent", res.get("sent") == {"buf[RangeTo::RangeTo{end: Add(Add(H, BODY), 2:usize)})"} and res.get("writes_per_call") == {1} and res.get("order") == {True}, b, None,
             "stream.write(%s), %s write per response, after all buffer edits: %s" % (sorted(res.get("sent", [])), sorted(res.get("writes_per_call", [])), sorted(res.get("order", []))),
             {"sent": sorted(res.get("sent", []))})
    cap = fx.const_int(C + "::RESPONSE_BUFFER_SIZE")
    nb = len(bytes.fromhex(fx.const(C + "::RESPONSE_HEADER_B")["bytes"]))
    yield ob("R-C16-1", "framing#digit_cells", 10 ** nb > cap and fx.const(C + "::RESPONSE_HEADER_B")["str"] == " " * nb, None, None,
             "%d blank digit cells hold any length < 10^%d > RESPONSE_BUFFER_SIZE = %d" % (nb, nb, cap), {"cells": nb, "buffer": cap})
    a = fx.const(C + "::RESPONSE_HEADER_A")["str"]
    c = fx.const(C + "::RESPONSE_HEADER_C")["str"]
    lz = [bb for bb in fx.bodies.values() if bb.short.startswith(C + "::RESPONSE_HEADER::{closure") and bb.kind == "closure"]
    cat = set()
    for bb in lz:
        for p in paths(fx, bb):
            if p.end == "return":
                r = strip_after(p.ret)
                if r[0] == "call" and r[2] and r[2][0][0] == "c" and r[2][0][2] == "promoted":
                    pv = [q.ret for q in paths(fx, fx.promoted(bb, r[2][0][3])) if q.end == "return"]
                    if pv:
                        r = (r[0], r[1], (strip_after(pv[0]),)) + tuple(r[3:])
                cat.add(show(r))
    okh = a == "HTTP/1.1 200 OK\r\nContent-Length: " and c == "\r\n\r\n" and len(cat) == 1 and list(cat)[0].endswith("::concat(['HTTP/1.1 200 OK\\r\\nContent-Length: ', '        ', '\\r\\n\\r\\n'])")
    yield ob("R-C16-1", "framing#header_text", okh, None, None, "RESPONSE_HEADER = %s" % sorted(cat), {"header": sorted(cat)})


@PROP.rule("R-C16-2", floor=3, doc="one routing function: announce and every scrape part go to calculate_request_consumer_index(config, hash)")
def routing(fx):
    b = fx.fn(C + "::Connection::handle_request::{closure#0}")
    ps = cpaths(fx, b)
    ann, scr, ent, pend = set(), set(), set(), set()
    for p in ps:
        for e in p.calls(r"Senders.*::send_to$"):
            idx = show(strip_after(e[2][1]))
            msg = strip_after(e[2][2])
            kind = [x[2] for x in sym.walk(msg) if x[0] == "agg" and x[1].endswith("ChannelRequest")]
            if kind == ["Announce"]:
                ann.add(idx)
            elif kind == ["Scrape"]:
                scr.add(re.sub(r"\(<IntoIter as Iterator>::next\(.*\) as Some\)\.0\.0$", "ENTRY.key", idx))
        for e in p.calls(r"BTreeMap.*::entry$"):
            ent.add(show(strip_after(e[2][1]))[:120])
        for e in p.effects:
            if e[0] == "agg" and e[1].endswith("PendingScrapeResponse"):
                pend.add(show(strip_after(dict(e[3])["pending_worker_responses"]))[:80])
    yield ob("R-C16-2", "routing#announce", ann == {"calculate_request_consumer_index(self.config, (request as Announce).0.info_hash)"}, b, None,
             "announce sent to worker %s" % sorted(ann), {"index": sorted(ann)})
    oke = len(ent) >= 1 and all(x.startswith("calculate_request_consumer_index(self.config, (") for x in ent)
    yield ob("R-C16-2", "routing#scrape_partition", oke and scr == {"ENTRY.key"}, b, None,
             "scrape hashes grouped by %s; each group sent to its key %s" % (sorted(x[:70] for x in ent), sorted(scr)), {"entry": sorted(x[:100] for x in ent)})
    yield ob("R-C16-2", "routing#pending_count", len(pend) == 1 and list(pend)[0].startswith("BTreeMap::len("), b, None,
             "pending_worker_responses = %s" % sorted(pend), {"pending": sorted(pend)})
    f = fx.fn(C + "::calculate_request_consumer_index")
    r = [show(strip_after(p.ret)) for p in paths(fx, f) if p.end == "return"]
    yield ob("R-C16-2", "routing#function", r == ["Rem((info_hash.0[0] as usize), config.swarm_workers)"], f, None, "calculate_request_consumer_index = %s" % r, {"table": r})


@PROP.rule("R-C16-3", floor=1, doc="workers invisible: the scrape list is cut to max_scrape_torrents before it is partitioned over swarm workers")
def truncation(fx):
    b = fx.fn(C + "::Connection::handle_request::{closure#0}")
    its = set()
    for p in cpaths(fx, b):
        for e in p.calls(r"IntoIterator>::into_iter$"):
            s = show(strip_after(e[2][0]))
            if "info_hashes" in s and "BTreeMap" not in s and "info_hashes_by_worker" not in s:
                its.add(s)
    want = "Iterator::take(<Vec as IntoIterator>::into_iter((request as Scrape).0.info_hashes), self.config.protocol.max_scrape_torrents)"
    inner = "(request as Scrape).0.info_hashes"
    yield ob("R-C16-3", "scrape#truncated_before_fanout", want in its and its <= {want, inner}, b, None,
             "hash list iterated for partitioning: %s; required: take(max_scrape_torrents) of the request order "
             "(otherwise each of w swarm workers applies the limit to its own part and up to w x max torrents are reported)" % sorted(its), {"iter": sorted(its)})


@PROP.rule("R-C16-4", floor=4, doc="connection loop: read < handle < write, one write per request, keep-alive decides the exit; SO_REUSEPORT before bind")
def loop(fx):
    b = fx.fn(C + "::Connection::run::{closure#0}")
    ps = cpaths(fx, b)
    okorder = True
    n = 0
    for p in ps:
        seq = [e[1].split("::")[-1] for e in p.effects if e[0] == "call" and re.search(r"Connection.*::(read_request|handle_request|write_response)$", e[1])]
        if not seq:
            continue
        n += 1
        # sequence must be a prefix of (read, handle, write)* 
        pat = ["read_request", "handle_request", "write_response"]
        if any(s != pat[i % 3] for i, s in enumerate(seq)):
            okorder = False
    yield ob("R-C16-4", "loop#order", okorder and n > 0, b, None, "on all %d paths the calls follow (read_request, handle_request, write_response)*: %s" % (n, okorder), {"paths": n})
    args = set()
    for p in ps:
        for e in p.calls(r"Connection.*::write_response$"):
            a = show(strip_after(e[2][1]))
            args.add("HANDLED" if a.startswith("Connection::handle_request(self, Connection::read_request(self).await?.0, ") and a.endswith(").await?") else a[:60])
        for e in p.calls(r"Connection.*::handle_request$"):
            args.add("handle(" + re.sub(r"Connection::read_request\(self\)\.await\?", "READ", show(strip_after(e[2][1])))[:30] + ")")
    yield ob("R-C16-4", "loop#dataflow", args == {"HANDLED", "handle(READ.0)"}, b, None, "write_response(%s)" % sorted(args), {"args": sorted(args)})
    # exits: `?` errors, or break on !keep_alive after a write
    exits = set()
    for p in ps:
        if p.end != "return":
            continue
        r = strip_after(p.ret)
        if r[0] == "agg" and r[2] == "Ok":
            ka = [sym.atom_bool(a) for a in p.atoms]
            ka = [x[1] for x in ka if x and fp(strip_after(x[0])).endswith("config.network.keep_alive")]
            wrote = len(p.calls(r"Connection.*::write_response$"))
            exits.add((tuple(ka[-1:]), wrote >= 1))
    # CFG argument: with keep-alive off the loop cannot be re-entered; with keep-alive on it can
    cfg = b.cfg
    backs = cfg.back_edges()
    # only the connection loop's own back edges (not the .await poll loops)
    ev = sym.Evaluator(fx, b)
    loop_backs = set(e for h, ent in ev.loops().items() if not ent[1] for e in ent[2])
    src = set(x for x, h in loop_backs)
    verdict = []
    for i, blk in enumerate(b.blocks):
        t = blk["term"]
        if t["k"] != "switch" or blk["cleanup"]:
            continue
        op = t["op"].get("mv") or t["op"].get("cp")
        if not op or "p" in op:
            continue
        def from_keep_alive(l, depth=0):
            # the switch operand is the flag itself or a (chain of) plain copies of it (`let keep_alive = self.config.network.keep_alive;`)
            for bi, si, st in b.assigns():
                if st["lhs"].get("l") == l and "p" not in st["lhs"]:
                    u = st["rv"].get("use", {})
                    pl = u.get("cp") or u.get("mv")
                    if pl and any(e[0] == "f" and e[2] == "keep_alive" for e in pl.get("p", [])):
                        return True
                    if pl and "p" not in pl and depth < 3 and from_keep_alive(pl["l"], depth + 1):
                        return True
            return False
        is_ka = from_keep_alive(op["l"])
        if not is_ka:
            continue
        off_t = [tb for v, tb in t["targets"] if v == 0]
        on_t = t["otherwise"]
        if not off_t:
            continue
        off_loops = bool(cfg.reach_from(off_t[0], avoid_edges=backs) & src)
        on_loops = bool(cfg.reach_from(on_t, avoid_edges=backs) & src)
        verdict.append((off_loops, on_loops))
    yield ob("R-C16-4", "loop#keep_alive_exit", exits == {((False,), True)} and verdict == [(False, True)], b, None,
             "Ok exits: (keep_alive, wrote a response) = %s; (keep-alive off can loop again, keep-alive on can loop again) = %s" % (sorted(exits), verdict),
             {"exits": sorted(map(str, exits)), "cfg": verdict})
    f = fx.fn("aquatic_http::workers::socket::create_tcp_listener")
    okp = True
    n = 0
    for p in cpaths(fx, f):
        calls = [e[1].split("::")[-1] for e in p.effects if e[0] == "call" and re.search(r"Socket>?::(set_reuse_port|bind|listen)$", e[1])]
        if "bind" in calls:
            n += 1
            if "set_reuse_port" not in calls or calls.index("set_reuse_port") > calls.index("bind"):
                okp = False
            rp = [e for e in p.calls(r"Socket>?::set_reuse_port$")]
            if rp and const_int(strip_after(rp[0][2][1])) != 1:
                okp = False
    yield ob("R-C16-4", "listener#reuse_port_before_bind", okp and n > 0, f, None, "set_reuse_port(true) precedes bind on all %d binding paths: %s" % (n, okp), {"paths": n})


@PROP.rule("R-C16-5", floor=1, doc="no RefCell guard is alive at a suspension point of any async body of the HTTP tracker (a second borrower would panic and take the worker down)")
def refcell_across_await(fx):
    from aq import refcell
    from aq.util import in_test_code as _t
    n = 0
    bad = []
    for b in fx.bodies.values():
        if b.crate not in ("aquatic_http",) or _t(b) or not any(blk["term"]["k"] == "yield" for blk in b.blocks):
            continue
        n += 1
        for line, held in refcell.held_across_await(b):
            bad.append("%s:%s holds %s (borrowed at line %s) across an await" % (b.short.split("::workers::")[-1], line, held[0][0], held[0][1]))
    yield ob("R-C16-5", "await#http#no_refcell_guard_held", n >= 10 and not bad, None, None,
             "%d async bodies analysed (may-hold dataflow of std::cell::Ref / RefMut locals to every yield): %s" % (n, bad[:4] or "none held across an await"), {"async_bodies": n, "held": bad[:10]})


@PROP.rule("R-C16-6", floor=2, doc="each request is parsed from its own bytes only: the receive window restarts at 0 for every request, grows by exactly what was read, and the parser sees exactly that window")
def request_window(fx):
    b = fx.fn(C + "::Connection::read_request::{closure#0}")
    n_reads = n_parses = 0
    bad = set()
    deferred = set()
    for p in cpaths(fx, b):
        last = None          # (start expr text, start expr) of the latest read
        first = True
        for e in p.effects:
            if e[0] != "call":
                continue
            if re.search(r"AsyncReadExt::read$", e[1]):
                n_reads += 1
                tgt = strip_after(e[2][1])
                ok_shape = tgt[0] == "call" and re.search(r"IndexMut.*::index_mut$", tgt[1]) and fp(strip_after(tgt[2][0])).rstrip("'").endswith("request_buffer")
                rng = strip_after(tgt[2][1]) if ok_shape else None
                f = dict(rng[3]) if rng is not None and rng[0] == "agg" and rng[1].endswith("RangeFrom") else None
                if f is None or "start" not in f:
                    bad.add("read target is not request_buffer[start..]: %s" % show(tgt)[:70])
                    last = None
                    first = False
                    continue
                s = show(strip_after(f["start"]))
                if first and re.search(r"self\.request_buffer_position$", s):
                    deferred.add(p)      # accepted second idiom: the position is reset when a request is handed out (checked below)
                elif first and s != "0:usize":
                    bad.add("the first read of a request starts at %s, not at 0 (bytes of the previous request stay in the window)" % s[:60])
                if not first and last is not None and s != last[2]:
                    bad.add("a later read starts at %s, not where the parsed window ended" % s[:60])
                first = False
                last = [s, f["start"], None]
            elif re.search(r"::parse_request$", e[1]):
                n_parses += 1
                src = strip_after(e[2][1])
                ok_shape = src[0] == "call" and re.search(r"Index.*::index$", src[1]) and fp(strip_after(src[2][0])).rstrip("'").endswith("request_buffer")
                rng = strip_after(src[2][1]) if ok_shape else None
                f = dict(rng[3]) if rng is not None and rng[0] == "agg" and rng[1].endswith("RangeTo") else None
                if f is None or "end" not in f or last is None:
                    bad.add("parse_request does not read request_buffer[..end] after a read: %s" % show(src)[:70])
                    continue
                end = strip_after(f["end"])
                if not (end[0] == "bin" and end[1] == "Add" and show(strip_after(end[2])) == last[0] and has_call(end[3], r"AsyncReadExt::read$")):
                    bad.add("parsed window ends at %s, not at (start of the last read + bytes read)" % show(end)[:80])
                last[2] = show(end)
    if deferred:
        # idiom 2: every Ok return leaves the position at 0 and the connection starts with 0
        from aq.util import who_constructs
        for p in cpaths(fx, b):
            if p.end != "return" or p.ret is None or not show(strip_after(p.ret)).startswith("Result::Ok"):
                continue
            w = [show(strip_after(e[2])) for e in p.effects if e[0] == "write" and e[5] and e[5][-1] == ("f", "request_buffer_position")]
            if not w or w[-1] != "0:usize":
                bad.add("the window starts at the stored position, but an Ok return leaves it at %s" % (w[-1][:40] if w else "its old value"))
        inits = []
        for cb, _i, st in who_constructs(fx, r"connection::Connection$", crates={"aquatic_http"}):
            a = st["rv"]["agg"]
            names = a.get("fields") or []
            if "request_buffer_position" in names:
                op = st["rv"]["ops"][names.index("request_buffer_position")]
                inits.append(op.get("c", {}).get("int"))
        if not inits or any(v != 0 for v in inits):
            bad.add("the window starts at the stored position, which a new connection initialises with %s" % inits)
    yield ob("R-C16-6", "window#restart_and_growth", n_reads >= 2 and n_parses >= 2 and not bad, b, None,
             "%d read and %d parse_request effects over all paths: first read at request_buffer[0..], parser given request_buffer[..start + bytes_read], next read "
             "continues there; deviations: %s" % (n_reads, n_parses, sorted(bad)[:3]), {"reads": n_reads, "parses": n_parses})
    # the connection loop calls read_request for every request (R-C16-4) and nothing else writes the position
    from aq.util import field_uses
    writers = sorted({u[0].short.split("::connection::")[-1] for u in field_uses(fx, r"connection::Connection", "request_buffer_position", crates={"aquatic_http"}) if u[2] == "write"})
    yield ob("R-C16-6", "window#who_writes_position", writers != [] and set(writers) <= {"Connection::read_request::{closure#0}", "run_connection::{closure#0}", "run_connection::{closure#0}::{closure#0}"},
             None, None, "request_buffer_position is written in %s" % writers, {"writers": writers})
