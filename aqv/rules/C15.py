"""C15 - WebTorrent JSON codec: untagged unambiguity, exact 20-byte identifiers."""
import re

from aq import sym
from aq.core import Property
from aq.sym import show, strip_after
from aq.util import (call_args, calls_in, const_int, const_str, cpaths, fp, has_call, in_test_code, ob, ok_paths, paths,
                     serde_schema, unwrap_origin, who_calls)

PROP = Property(
    "C15", "other",
    "Necessary conditions of the JSON round trip decided from the derived serde code and the hand-written "
    "visitor: for every `untagged` enum no earlier variant can accept what a later variant writes (wire schema "
    "recovered from the derived Deserialize/Serialize MIR), text and binary frames use the same deserialiser, "
    "the 20-byte visitor accepts exactly 20 characters <= U+00FF (it must test that the input is exhausted) and "
    "the encoder writes one char per byte into a buffer that is large enough.",
    ["aqfacts MIR extraction", "serde derive semantics (first matching untagged variant wins, unknown fields ignored)",
     "serde_json / simd-json string and number handling"],
    ["round trip of SDP text and numbers through serde_json/simd-json is not decided (trusted dependencies)"],
)
P = "aquatic_ws_protocol"

TAGS = {"AnnounceAction", "ScrapeAction", "RtcOfferType", "RtcAnswerType", "ErrorResponseAction"}


def tag_values(fx, ty):
    tail = ty.split("::")[-1].rstrip(">")
    for t in TAGS:
        if ty.endswith("::" + t) or ty.endswith("::" + t + ">"):
            s = serde_schema(fx, P + "::" + ("outgoing::error::" if t == "ErrorResponseAction" else "common::") + t)
            return set(s["de"]), ty.startswith("std::option::Option<")
    return None, False


def accepts(fx, early, late):
    """Could the struct `early` deserialise successfully from what `late` serialises? Returns reason it cannot, or None."""
    e = serde_schema(fx, early)
    l = serde_schema(fx, late)
    for w in sorted(e["required"]):
        if w not in l["ser_maybe"]:
            return "required key %r of %s is never written by %s" % (w, early.split("::")[-1], late.split("::")[-1])
    # tag fields with disjoint string sets
    lf = {w: l["fields"][i][1] for w, i in l["de"].items() if i < len(l["fields"])}
    for w, i in e["de"].items():
        ety = e["fields"][i][1]
        ev, eopt = tag_values(fx, ety)
        if ev is None or w not in lf:
            continue
        lv, lopt = tag_values(fx, lf[w])
        if lv is not None and not (ev & lv) and w in l["ser_always"]:
            return "key %r is a tag: %s accepts %s, %s writes %s" % (w, early.split("::")[-1], sorted(ev), late.split("::")[-1], sorted(lv))
    return None


UNTAGGED = {
    P + "::incoming::InMessage": [("AnnounceRequest", P + "::incoming::announce::AnnounceRequest"), ("ScrapeRequest", P + "::incoming::scrape::ScrapeRequest")],
    P + "::outgoing::OutMessage": [("OfferOutMessage", P + "::outgoing::offer::OfferOutMessage"), ("AnswerOutMessage", P + "::outgoing::answer::AnswerOutMessage"),
                                  ("AnnounceResponse", P + "::outgoing::announce::AnnounceResponse"), ("ScrapeResponse", P + "::outgoing::scrape::ScrapeResponse"),
                                  ("ErrorResponse", P + "::outgoing::error::ErrorResponse")],
}


@PROP.rule("R-C15-1", floor=12, doc="untagged enums: no earlier variant accepts a later variant's output; variant order as declared")
def untagged(fx):
    for enum, variants in UNTAGGED.items():
        a = fx.adt(enum)
        order = [v["name"] for v in a["variants"]]
        known = dict(variants)
        yield ob("R-C15-1", "untagged#%s#variants" % enum.split("::")[-1], set(order) == set(known), None, None,
                 "variants %s" % order, {"order": order}, trivial=True)
        for i, ev in enumerate(order):
            for lv in order[i + 1:]:
                if ev not in known or lv not in known:
                    continue
                why = accepts(fx, known[ev], known[lv])
                yield ob("R-C15-1", "untagged#%s#%s<%s" % (enum.split("::")[-1], ev, lv), why is not None, None, None,
                         why or "%s (tried first) would accept every message written for %s" % (ev, lv), {"earlier": ev, "later": lv, "reason": why})
    # ScrapeRequestInfoHashes: Single(string) vs Multiple(sequence) are type-distinct
    a = fx.adt(P + "::incoming::scrape::ScrapeRequestInfoHashes")
    vs = [(v["name"], [f["ty"] for f in v["fields"]]) for v in a["variants"]]
    okv = vs == [("Single", [P + "::common::InfoHash"]), ("Multiple", ["std::vec::Vec<%s::common::InfoHash>" % P])]
    yield ob("R-C15-1", "untagged#ScrapeRequestInfoHashes", okv, None, None, "variants %s (a JSON string vs a JSON array)" % vs, {"variants": [v[0] for v in vs]})
    # schemas of the message structs (sample for the evidence; also a floor on recovered keys)
    for name, path in UNTAGGED[P + "::incoming::InMessage"] + UNTAGGED[P + "::outgoing::OutMessage"]:
        s = serde_schema(fx, path)
        yield ob("R-C15-1", "schema#%s" % name, len(s["de"]) == len(s["fields"]) and s["ser_maybe"] == set(s["de"]), None, None,
                 "keys read %s; required %s; always written %s" % (sorted(s["de"]), sorted(s["required"]), sorted(s["ser_always"])),
                 {"read": sorted(s["de"]), "required": sorted(s["required"]), "always_written": sorted(s["ser_always"])})


@PROP.rule("R-C15-1f", floor=2, doc="text and binary WebSocket frames are decoded by the same deserialiser")
def frames(fx):
    for ty in ("incoming::InMessage", "outgoing::OutMessage"):
        b = fx.fn("%s::%s::from_ws_message" % (P, ty))
        arms = {}
        for p in cpaths(fx, b):
            if p.end != "return":
                continue
            calls = p.calls(r"simd_json::.*from_slice$|serde_json::.*from_(slice|str)$")
            des = sorted(set(e[1] for e in calls))
            t = [p.call_term(e[3])["f"]["args"] for e in calls]
            src = " ".join(show(strip_after(a)) for e in p.effects if e[0] == "call" for a in e[2])
            kind = "Text" if re.search(r"message as Text\)", src) else "Binary" if re.search(r"message as Binary\)", src) else "other"
            if kind == "other" and not calls:
                continue
            if not calls:
                continue  # early error return (e.g. invalid utf-8 in a binary frame)
            arms.setdefault(kind, set()).add((tuple(des), tuple(x[-1] for x in t)))
        oka = "Text" in arms and "Binary" in arms and arms["Text"] == arms["Binary"] and all(d[0] for d in arms["Text"])
        yield ob("R-C15-1f", "frames#%s" % ty.split("::")[-1], oka, b, None,
                 "deserialiser per frame kind: %s" % {k: sorted(v) for k, v in arms.items() if k in ("Text", "Binary")},
                 {"arms": {k: sorted(map(str, v)) for k, v in arms.items()}})


def exact20(fx, b, src_name):
    """Checks of a hand-written 20-byte string decoder (shared shape with the HTTP url decoder):
    returns dict(short_rejected, wide_rejected, exhaustion_tested, ok_paths)"""
    ps = [p for p in cpaths(fx, b) if p.end == "return"]
    ok = [p for p in ps if strip_after(p.ret)[0] == "agg" and strip_after(p.ret)[2] == "Ok"]
    res = {"ok_paths": len(ok), "exhaustion": True, "range": True, "short": False}
    for p in ps:
        r = strip_after(p.ret)
        nexts = [a for a in p.atoms if a["discr"][0] == "discr" and re.search(r"Chars as .*Iterator>::next\(|Chars.*::next\(", show(a["discr"][1]))]
        if r[0] == "agg" and r[2] == "Err" and nexts and nexts[-1]["label"] != ("sw", 1) and sym.atom_variant(fx, nexts[-1]) and \
                "Some" not in (sym.atom_variant(fx, nexts[-1])[1] if sym.atom_variant(fx, nexts[-1])[2] else []):
            res["short"] = True
    for p in ok:
        # every consumed char was range-checked
        chars = [a for a in p.atoms if sym.atom_bool(a) and sym.atom_bool(a)[0][0] == "bin" and sym.atom_bool(a)[0][1] in ("Gt", "Le", "Lt", "Ge")
                 and const_int(sym.atom_bool(a)[0][3]) in (255, 256)]
        some_next = [a for a in p.atoms if (sym.atom_variant(fx, a) or (None, [], False))[2] and sym.atom_variant(fx, a)[1] == ["Some"]
                     and re.search(r"Chars", show(a["discr"][1]))]
        if len(chars) < len(some_next) or not all((sym.atom_bool(a)[0][1] == "Gt" and sym.atom_bool(a)[1] is False) or
                                                  (sym.atom_bool(a)[0][1] == "Le" and sym.atom_bool(a)[1] is True) for a in chars):
            res["range"] = False
        # exhaustion: after the last consumed char there is a test that the char iterator yields nothing more
        exhausted = False
        last_some = max([a["neff"] for a in some_next], default=-1)
        for a in p.atoms:
            if a["neff"] <= last_some:
                continue
            s = show(strip_after(a["discr"]))
            v = sym.atom_variant(fx, a)
            ab = sym.atom_bool(a)
            if v and re.search(r"Chars", s) and ((v[2] and v[1] == ["None"]) or (not v[2] and v[1] == ["Some"])):
                exhausted = True
            if ab and re.search(r"Chars", s) and ((ab[0][1].endswith("is_none") and ab[1]) or (ab[0][1].endswith("is_some") and not ab[1])) if ab and ab[0][0] == "call" else False:
                exhausted = True
        # alternative idiom: an up-front exact length test on the char count
        for a in p.atoms:
            ab = sym.atom_bool(a)
            if ab and ab[0][0] == "bin" and ab[0][1] == "Eq" and ab[1] and const_int(ab[0][3]) == 20 and re.search(r"Iterator::count\(.*chars", show(ab[0][2])):
                exhausted = True
        if not exhausted:
            res["exhaustion"] = False
    return res


@PROP.rule("R-C15-2", floor=3, doc="20-byte visitor accepts exactly 20 chars <= U+00FF: rejects short input, wide chars, and over-long input")
def decoder(fx):
    b = fx.fn("<%s::common::TwentyByteVisitor as %s::common::_::_serde::de::Visitor>::visit_str" % (P, P))
    r = exact20(fx, b, "value")
    yield ob("R-C15-2", "decode20#short_rejected", r["short"], b, None, "running out of characters before 20 -> Err: %s" % r["short"], {})
    yield ob("R-C15-2", "decode20#range_checked", r["range"] and r["ok_paths"] > 0, b, None,
             "every consumed char is compared with 255 before the cast on the %d accepting paths: %s" % (r["ok_paths"], r["range"]), {})
    yield ob("R-C15-2", "decode20#exhaustion_tested", r["exhaustion"] and r["ok_paths"] > 0, b, None,
             "accepting paths test that no characters remain after the 20th: %s (without it a longer string is silently truncated to its first 20 characters)" % r["exhaustion"],
             {"ok_paths": r["ok_paths"]})
    # the array filled has exactly 20 slots and the visitor is what deserialize_20_bytes uses
    tys = [l["ty"] for l in b.locals]
    yield ob("R-C15-2", "decode20#width", "[u8; 20]" in tys, b, None, "fills a [u8; 20]", trivial=True)
    d = fx.fn(P + "::common::deserialize_20_bytes")
    rets = [show(strip_after(p.ret)) for p in cpaths(fx, d) if p.end == "return"]
    yield ob("R-C15-2", "decode20#wired", rets == ["Deserializer::deserialize_any(deserializer, TwentyByteVisitor::TwentyByteVisitor{})"], d, None, "deserialize_20_bytes = %s" % rets, trivial=True)


@PROP.rule("R-C15-3", floor=2, doc="encoder: one char per byte, buffer of 40 bytes suffices (2 bytes per char <= U+00FF)")
def encoder(fx):
    b = fx.fn(P + "::common::serialize_20_bytes")
    ps = [p for p in cpaths(fx, b) if p.end == "return"]
    enc = set()
    for p in ps:
        for e in p.calls(r"char::methods::<impl char>::encode_utf8$|<impl char>::encode_utf8$"):
            enc.add(show(strip_after(e[2][0]))[:80])
    okc = len(enc) >= 1 and all(re.match(r"<char as From>::from\(", x) or re.match(r"<impl From for char>::from\(", x) for x in enc)
    yield ob("R-C15-3", "encode20#char_per_byte", okc, b, None, "encode_utf8 receiver: %s" % sorted(enc), {"receiver": sorted(enc)})
    tys = [l["ty"] for l in b.locals]
    buf = [int(m.group(1)) for t in tys for m in [re.match(r"\[u8; (\d+)\]$", t)] if m]
    yield ob("R-C15-3", "encode20#buffer", bool(buf) and max(buf) >= 40 and "&[u8; 20]" in tys, b, None,
             "buffers %s for 20 bytes x 2 utf-8 bytes" % sorted(set(buf)), {"buffers": sorted(set(buf))})
