"""C08 - WebTorrent swarm bookkeeping and per-connection ownership of peers."""
import re

from aq import sym
from aq.core import Property
from aq.sym import show, strip_after
from aq.util import (call_args, calls_in, const_int, cpaths, field_uses, fp, has_call, in_test_code, ob, ok_paths, paths,
                     true_sets, unwrap_origin, who_calls, who_constructs)

PROP = Property(
    "C08", "other",
    "Necessary conditions of the WebTorrent bookkeeping decided path by path: the status table, the complete "
    "effect table of insert_or_update_peer / handle_connection_closed / the cleaning closure (seeder counter "
    "moves by new_seeder - old_seeder; entries are created, kept or removed exactly as the reference tracker "
    "says), the closed set of functions that mutate the peer map, and the ownership rule: a stored entry may "
    "only be touched by the connection identified by the pair (socket worker, per-worker connection key).",
    ["aqfacts MIR extraction", "indexmap entry/swap_remove/retain semantics"],
    ["equivalence with a reference tracker over all histories is not decided (local effect tables only)"],
)
ST = "aquatic_ws::workers::swarm::storage"


@PROP.rule("R-C08-1", floor=1, doc="status table: stopped / left == 0 -> seeder / otherwise leecher")
def status(fx):
    b = fx.fn(ST + "::PeerStatus::from_event_and_bytes_left")
    rows = set()
    for p in paths(fx, b):
        if p.end != "return":
            continue
        conds = []
        for a in p.atoms:
            v = sym.atom_variant(fx, a)
            if v:
                conds.append("%s %s %s" % (show(v[0]), "is" if v[2] else "is not", "|".join(v[1])))
            else:
                conds.append(sym.atom_text(fx, a))
        rows.add((tuple(conds), show(p.ret)))
    want = {(("event is Stopped",), "PeerStatus::Stopped{}"),
            (("event is not Stopped", "opt_bytes_left is Some", "(opt_bytes_left as Some).0 == 0"), "PeerStatus::Seeding{}"),
            (("event is not Stopped", "opt_bytes_left is Some", "(opt_bytes_left as Some).0 not in [0]"), "PeerStatus::Leeching{}"),
            (("event is not Stopped", "opt_bytes_left is not Some"), "PeerStatus::Leeching{}")}
    yield ob("R-C08-1", "table#PeerStatus", rows == want, b, None, "status table %s" % sorted(rows), {"table": sorted(map(str, rows))})


def delta(p, field="num_seeders"):
    """net change written to self.<field> on a path: +1 / -1 / 0 / '?'"""
    d = 0
    for e in p.effects:
        if e[0] == "write" and e[5] and e[5][-1] == ("f", field):
            v = strip_after(e[2])
            if v[0] == "bin" and v[1] in ("Add", "Sub") and const_int(v[3]) == 1 and fp(v[2]).endswith("." + field):
                d += 1 if v[1] == "Add" else -1
            else:
                return "?"
    return d


@PROP.rule("R-C08-2", floor=14, doc="effect table of insert_or_update_peer, handle_connection_closed and the cleaning closure")
def effects(fx):
    b = fx.fn(ST + "::TorrentData::insert_or_update_peer")
    rows = {}
    for p in cpaths(fx, b):
        if p.end != "return":
            continue
        ent = stat = None
        old = None
        for a in p.atoms:
            v = sym.atom_variant(fx, a)
            if v and v[2] and "IndexMap::entry(self.peers, request.peer_id)" == show(strip_after(v[0])):
                ent = v[1][0]
            elif v and v[2] and show(strip_after(v[0])).startswith("PeerStatus::from_event_and_bytes_left("):
                stat = v[1][0]
            ab = sym.atom_bool(a)
            if ab and fp(strip_after(ab[0])).endswith(".seeder"):
                old = ab[1]
        ops = []
        for e in p.effects:
            if e[0] == "call" and re.search(r"VacantEntry.*::insert$", e[1]):
                peer = strip_after(e[2][1])
                f = dict(peer[3]) if peer[0] == "agg" else {}
                ops.append("insert{seeder=%s,conn=%s,consumer=%s}" % (show(f.get("seeder")), show(f.get("connection_id")), show(f.get("consumer_id"))))
            if e[0] == "call" and re.search(r"OccupiedEntry.*::swap_remove$", e[1]):
                ops.append("remove")
            if e[0] == "write" and e[5] and e[5][-1] == ("f", "seeder"):
                ops.append("seeder:=%s" % show(strip_after(e[2])))
        key = (ent, stat, old)
        rows.setdefault(key, set()).add((delta(p), tuple(ops), "status" if show(strip_after(p.ret)).startswith("PeerStatus::from_event_and_bytes_left(") else show(strip_after(p.ret))[:40]))
    RET = "status"
    INS = "insert{seeder=%s,conn=request_sender_meta.connection_id,consumer=request_sender_meta.out_message_consumer_id}"
    want = {
        ("Vacant", "Stopped", None): {(0, (), RET)},
        ("Vacant", "Leeching", None): {(0, (INS % "0:bool",), RET)},
        ("Vacant", "Seeding", None): {(1, (INS % "1:bool",), RET)},
        ("Occupied", "Stopped", True): {(-1, ("remove",), RET)},
        ("Occupied", "Stopped", False): {(0, ("remove",), RET)},
        ("Occupied", "Leeching", True): {(-1, ("seeder:=0:bool",), RET)},
        ("Occupied", "Leeching", False): {(0, ("seeder:=0:bool",), RET)},
        ("Occupied", "Seeding", True): {(0, ("seeder:=1:bool",), RET)},
        ("Occupied", "Seeding", False): {(1, ("seeder:=1:bool",), RET)},
    }
    for key in sorted(set(want) | set(rows), key=str):
        yield ob("R-C08-2", "effect#insert_or_update#%s/%s/%s" % key, rows.get(key) == want.get(key), b, None,
                 "entry=%s status=%s old_seeder=%s: (delta num_seeders, ops) = %s; reference %s" % (key + (sorted(rows.get(key, [])), sorted(want.get(key, [])))),
                 {"arm": list(map(str, key)), "effects": sorted(map(str, rows.get(key, [])))})
    # status is computed from this request's event (default Update) and bytes_left
    st = set()
    for p in cpaths(fx, b):
        for e in p.calls(r"PeerStatus::from_event_and_bytes_left$"):
            st.add(tuple(show(strip_after(a)) for a in e[2]))
    yield ob("R-C08-2", "effect#insert_or_update#status_args", st == {("Option::unwrap_or_default(request.event)", "request.bytes_left")}, b, None,
             "status computed from %s" % sorted(st), {"args": sorted(map(list, st))})
    b = fx.fn(ST + "::TorrentData::handle_connection_closed")
    rows = set()
    for p in cpaths(fx, b):
        if p.end != "return":
            continue
        some = [sym.atom_variant(fx, a) for a in p.atoms]
        some = [(show(strip_after(v[0])), v[1][0] if v[2] else "!" + "|".join(v[1])) for v in some if v]
        sd = [sym.atom_bool(a) for a in p.atoms]
        sd = [x[1] for x in sd if x and fp(strip_after(x[0])).endswith(".seeder")]
        rows.add((tuple(some), tuple(sd), delta(p)))
    rem = "IndexMap::swap_remove(self.peers, peer_id)"
    want = {(((rem, "!Some"),), (), 0), (((rem, "Some"),), (True,), -1), (((rem, "Some"),), (False,), 0)}
    # an ownership test may add atoms; compare modulo extra atoms
    core = set((tuple(x for x in r[0] if x[0] == rem), r[1], r[2]) for r in rows)
    core.discard(((), (), 0))  # early return of the ownership test: no effect
    yield ob("R-C08-2", "effect#connection_closed", core == want, b, None, "rows %s" % sorted(rows), {"rows": sorted(map(str, rows))})
    # cleaning closure of the peer map
    cb = None
    pb = fx.fn(ST + "::TorrentData::clean_and_get_num_peers")
    for line, callee, args in call_args(fx, pb, r"IndexMap.*::retain$"):
        if fp(args[0]) == "self.peers":
            cb = fx.bodies.get(args[1][1]) if args[1][0] == "clo" else None
    rows = set()
    if cb is not None:
        for p in cpaths(fx, cb):
            if p.end != "return":
                continue
            at = set()
            for a in p.atoms:
                ab = sym.atom_bool(a)
                if ab:
                    for s in (norm_atoms(ab[0], ab[1])):
                        at.add(s)
            rows.add((frozenset(at), delta_up(p)))
    keep = "ValidUntil::valid(peer.valid_until, now)"
    want = {(frozenset({"!" + keep, "peer.seeder"}), -1)}
    got_dec = set(r for r in rows if r[1] != 0)
    okc = got_dec == want and all(r[1] == 0 for r in rows - got_dec) and len(rows) >= 2
    yield ob("R-C08-2", "effect#clean_closure", okc, cb or pb, None,
             "num_seeders changes in the retain closure: %s" % sorted((sorted(r[0]), r[1]) for r in rows), {"rows": sorted(str((sorted(r[0]), r[1])) for r in rows)})
    # closed world: who touches num_seeders / mutates the peer map
    wr = sorted(set(bb.short.replace(ST + "::", "") for bb, l, k in field_uses(fx, r"storage::TorrentData$", "num_seeders", crates=["aquatic_ws"]) if k == "write" and not in_test_code(bb)))
    want_w = ["TorrentData::clean_and_get_num_peers", "TorrentData::handle_connection_closed", "TorrentData::insert_or_update_peer"]
    yield ob("R-C08-2", "effect#who_writes_num_seeders", wr == want_w, None, None, "num_seeders written in %s" % wr, {"writers": wr})
    muts = {}
    for bb in fx.fns(r"^" + re.escape(ST) + "::", crates=["aquatic_ws"]):
        if in_test_code(bb) or bb.kind == "promoted":
            continue
        for p in cpaths(fx, bb)[:400]:
            for e in p.effects:
                if e[0] == "call" and re.search(r"indexmap::.*IndexMap.*::(entry|insert|insert_full|swap_remove|shift_remove|retain|pop|clear|drain|extend|get_mut|get_index_mut|remove|truncate|swap_remove_index|iter_mut|values_mut|sort|reverse|shrink_to_fit|swap_indices|move_index)[a-z_]*$", e[1]):
                    recv = fp(strip_after(e[2][0])) if e[2] else ""
                    if recv.endswith(".peers") or recv == "self.peers":
                        muts.setdefault(bb.short.replace(ST + "::", ""), set()).add(e[1].split("::")[-1])
    want_m = {"TorrentData::insert_or_update_peer": {"entry"}, "TorrentData::handle_offers": {"get_mut"}, "TorrentData::handle_answer": {"get_mut"},
              "TorrentData::handle_connection_closed": {"swap_remove"}, "TorrentData::clean_and_get_num_peers": {"retain", "shrink_to_fit"}}
    yield ob("R-C08-2", "effect#who_mutates_peers", muts == want_m, None, None, "peer map mutators: %s" % {k: sorted(v) for k, v in sorted(muts.items())},
             {"mutators": {k: sorted(v) for k, v in sorted(muts.items())}})


def norm_atoms(e, truth):
    from aq.util import norm_bool
    r = norm_bool(e, truth)
    if r is None:
        return {("" if truth else "!") + show(strip_after(e))}
    return r


def delta_up(p):
    d = 0
    for e in p.effects:
        if e[0] == "write":
            v = strip_after(e[2])
            if v[0] == "bin" and v[1] in ("Add", "Sub") and const_int(v[3]) == 1 and "num_seeders" in show(v[2]):
                d += 1 if v[1] == "Add" else -1
    return d


def eq_atoms(p, upto=None):
    """identity comparisons on a path: [(polarity-as-equal, lhs, rhs)]"""
    out = []
    for a in p.atoms:
        if upto is not None and a["neff"] > upto:
            continue
        ab = sym.atom_bool(a)
        if not ab:
            continue
        x = strip_after(ab[0])
        if x[0] == "call" and re.search(r"PartialEq.*::(eq|ne)$|::(eq|ne)$", x[1]) and len(x[2]) == 2:
            is_eq = x[1].endswith("eq")
            equal = ab[1] if is_eq else (not ab[1])
            out.append((equal, show(x[2][0]), show(x[2][1])))
        if x[0] == "bin" and x[1] in ("Eq", "Ne"):
            equal = ab[1] if x[1] == "Eq" else (not ab[1])
            out.append((equal, show(x[2]), show(x[3])))
    return out


@PROP.rule("R-C08-3", floor=2, doc="ownership on announce: an existing entry is only updated by the connection (consumer id, connection id) that created it")
def ownership_announce(fx):
    b = fx.fn(ST + "::TorrentMap::handle_announce_request")
    n = 0
    missing = set()
    for p in cpaths(fx, b):
        found = [sym.atom_variant(fx, a) for a in p.atoms]
        found = [v for v in found if v and v[2] and v[1] == ["Some"] and re.search(r"IndexMap::get\(.*\.peers, request\.peer_id\)$", show(strip_after(v[0])))]
        if not found:
            continue
        for i, e in enumerate(p.effects):
            if e[0] == "call" and e[1].endswith("TorrentData::insert_or_update_peer"):
                n += 1
                eqs = [x for x in eq_atoms(p, upto=i) if x[0]]
                have_conn = any(("connection_id" in l and "connection_id" in r and "request_sender_meta" in l + r and "as Some).0" in l + r) for _, l, r in eqs)
                have_cons = any(("consumer_id" in l + r and "request_sender_meta" in l + r and "as Some).0" in l + r and l != r) and
                                ("consumer_id" in l and "consumer_id" in r or "out_message_consumer_id" in l + r) for _, l, r in eqs)
                if not have_conn:
                    missing.add("connection_id")
                if not have_cons:
                    missing.add("consumer_id")
    yield ob("R-C08-3", "ownership#announce#identity_pair", n > 0 and not missing, b, None,
             "%d path-sites update an existing entry; identity components not compared before the update: %s "
             "(a connection is identified by (out_message_consumer_id, connection_id): slot-map keys of different socket workers coincide)" % (n, sorted(missing)),
             {"sites": n, "missing": sorted(missing)})
    # a mismatch leaves the entry alone and produces no reply
    bad = 0
    n2 = 0
    for p in cpaths(fx, b):
        if p.end != "return":
            continue
        neq = [x for x in eq_atoms(p) if not x[0] and "request_sender_meta" in x[1] + x[2]
               and re.search(r"\.(connection_id|consumer_id|out_message_consumer_id)(\.0)?$", x[1]) and re.search(r"\.(connection_id|consumer_id|out_message_consumer_id)(\.0)?$", x[2])]
        if not neq:
            continue
        n2 += 1
        if p.calls(r"insert_or_update_peer$|handle_offers$|handle_answer$|Vec.*::push$"):
            bad += 1
    yield ob("R-C08-3", "ownership#announce#foreign_ignored", n2 > 0 and bad == 0, b, None,
             "%d paths where the sender is not the owner; %d of them touch state or reply" % (n2, bad), {"paths": n2})


@PROP.rule("R-C08-4", floor=2, doc="ownership on close: a closing connection removes only entries it created")
def ownership_close(fx):
    b = fx.fn(ST + "::TorrentData::handle_connection_closed")
    # the removal must be conditional on the stored peer's identity matching the closing connection
    rem = 0
    unguarded = 0
    for p in cpaths(fx, b):
        for i, e in enumerate(p.effects):
            if e[0] == "call" and re.search(r"IndexMap.*::(swap_remove|shift_remove|remove)$", e[1]):
                rem += 1
                eqs = [x for x in eq_atoms(p, upto=i) if x[0]]
                ok_conn = any("connection_id" in l and "connection_id" in r and l != r for _, l, r in eqs)
                ok_cons = any("consumer_id" in l + r and l != r and ("consumer_id" in l and "consumer_id" in r or "out_message_consumer_id" in l + r) for _, l, r in eqs)
                if not (ok_conn and ok_cons):
                    unguarded += 1
    yield ob("R-C08-4", "ownership#close#owner_checked", rem > 0 and unguarded == 0, b, None,
             "%d removal path-sites, %d not guarded by an identity comparison of the stored peer with the closing connection "
             "(an announce ignored under the ownership rule is still recorded by the sending connection, whose close then removes the owner's entry)" % (rem, unguarded),
             {"removals": rem, "unguarded": unguarded})
    # the control message must carry the closing connection's identity
    a = fx.adt("aquatic_ws::common::SwarmControlMessage")
    v = [x for x in a["variants"] if x["name"] == "ConnectionClosed"]
    ftys = [f["ty"] for f in v[0]["fields"]] if v else []
    has_id = any("ConnectionId" in t for t in ftys) and any("ConsumerId" in t for t in ftys)
    yield ob("R-C08-4", "ownership#close#message_carries_identity", has_id, None, None,
             "SwarmControlMessage::ConnectionClosed fields: %s" % [(f["name"], f["ty"].split("::")[-1]) for f in (v[0]["fields"] if v else [])],
             {"fields": [f["name"] for f in (v[0]["fields"] if v else [])]})


@PROP.rule("R-C08-5", floor=3, doc="announce reply counts are read after the update; scrape reports only stored torrents with their counters")
def replies(fx):
    b = fx.fn(ST + "::TorrentMap::handle_announce_request")
    vals = set()
    for p in cpaths(fx, b):
        if p.end != "return":
            continue
        upd = [k for k, e in enumerate(p.effects) if e[0] == "call" and e[1].endswith("TorrentData::insert_or_update_peer")]
        for k, e in enumerate(p.effects):
            if e[0] == "agg" and e[1].endswith("::AnnounceResponse") and "outgoing" in e[1]:
                f = dict(e[3])
                c, i = f["complete"], f["incomplete"]
                nl = [j for j, x in enumerate(p.effects) if x[0] == "call" and x[1].endswith("TorrentData::num_leechers")]
                after_c = bool(upd) and upd[-1] < k and bool(nl) and nl[-1] > upd[-1]
                vals.add((show(strip_after(c))[-40:], show(strip_after(i))[:30], bool(after_c), show(strip_after(f["info_hash"]))))
    want_ok = len(vals) >= 1 and all(v[0].endswith(".num_seeders") and v[1].startswith("TorrentData::num_leechers(") and v[2] and v[3] == "request.info_hash" for v in vals)
    yield ob("R-C08-5", "reply#announce_counts", want_ok, b, None, "AnnounceResponse counts: %s" % sorted(vals), {"values": sorted(map(str, vals))})
    nl = fx.fn(ST + "::TorrentData::num_leechers")
    r = [show(p.ret) for p in paths(fx, nl) if p.end == "return"]
    yield ob("R-C08-5", "reply#num_leechers", r == ["Sub(IndexMap::len(self.peers), self.num_seeders)"], nl, None, "num_leechers() = %s" % r, {"table": r})
    b = fx.fn(ST + "::TorrentMap::handle_scrape_request")
    ins = set()
    guarded = True
    for p in cpaths(fx, b):
        for i, e in enumerate(p.effects):
            if e[0] == "call" and re.search(r"HashMap.*::insert$", e[1]):
                st = strip_after(e[2][2])
                f = dict(st[3]) if st[0] == "agg" else {}
                ins.add((show(f.get("complete"))[-30:], show(f.get("incomplete"))[:30], show(f.get("downloaded"))))
                some = [sym.atom_variant(fx, a) for a in p.atoms if a["neff"] <= i]
                if not any(v and v[2] and v[1] == ["Some"] and show(strip_after(v[0])).startswith("IndexMap::get(self.torrents, ") for v in some):
                    guarded = False
    okv = len(ins) >= 1 and all(x[0].endswith(".num_seeders") and x[1].startswith("TorrentData::num_leechers(") and x[2] == "0:usize" for x in ins)
    yield ob("R-C08-5", "reply#scrape_entries", okv and guarded, b, None, "scrape entries %s, only under torrents.get(..) is Some: %s" % (sorted(ins), guarded), {"entries": sorted(map(str, ins))})


def has_after(e, callee_tail):
    stack = [e]
    while stack:
        x = stack.pop()
        if isinstance(x, tuple) and x and x[0] == "after" and x[1].endswith(callee_tail):
            return True
        if isinstance(x, tuple):
            stack.extend(y for y in x if isinstance(y, tuple))
    return False
