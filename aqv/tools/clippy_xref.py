#!/usr/bin/env python3
"""One-off cross-reference (not a registered check): run clippy's panic-related restriction lints over the workspace and
compare every reported line that lies inside a body reachable from the network entry points with the C12 inventory.

  cd /repo && CARGO_TARGET_DIR=/verif/.cache/target/clippy cargo +nightly clippy --offline --workspace --message-format=json -- \
      -A clippy::all -W clippy::unwrap_used -W clippy::expect_used -W clippy::indexing_slicing -W clippy::panic \
      -W clippy::unreachable -W clippy::arithmetic_side_effects > /verif/.cache/clippy.json
  python3 /verif/aqv/tools/clippy_xref.py /verif/.cache/clippy.json

Result on the pinned tree (2026-09-24): 393 panic-related clippy rows, 0 inside reachable bodies that the MIR inventory does not list.
(clippy is syntactic and sees e.g. `a + b` on integers; the inventory is taken from MIR Assert terminators and calls, so
the inventory is a superset there; the comparison is by file:line.)"""
import collections, json, os, sys
sys.path.insert(0, os.path.dirname(os.path.dirname(os.path.abspath(__file__))))
from aq.facts import Facts
import build_facts
import rules.C12 as m


def main(path):
    fx = Facts(build_facts.facts_dir("default+uring", None))
    fx.tier = "quick"
    roots, reach, sites, lines = m.inventory(fx)
    mine = {x for v in lines.values() for x in v}
    body_lines = collections.defaultdict(set)
    for b in reach:
        for blk in b.blocks:
            for s in blk["stmts"]:
                if s.get("line"):
                    body_lines[b.file].add(s["line"])
            if blk["term"].get("line"):
                body_lines[b.file].add(blk["term"]["line"])
    rows = []
    for l in open(path):
        try:
            d = json.loads(l)
        except ValueError:
            continue
        if d.get("reason") != "compiler-message":
            continue
        msg = d["message"]
        code = (msg.get("code") or {}).get("code") or ""
        sp = [s for s in msg["spans"] if s["is_primary"]]
        if code.startswith("clippy::") and code != "clippy::cast_possible_truncation" and sp:
            rows.append((sp[0]["file_name"], sp[0]["line_start"], code, msg["message"][:80]))
    miss = [r for r in rows if "%s:%s" % (r[0], r[1]) not in mine and r[1] in body_lines.get(r[0], ())]
    print("%d clippy rows; %d inside reachable bodies but not in the C12 inventory" % (len(rows), len(miss)))
    for r in miss:
        print("  ", r)
    return 1 if miss else 0


if __name__ == "__main__":
    sys.exit(main(sys.argv[1]))
