#!/usr/bin/env python3
"""debug aid: python3 dump.py <fn short path> [--mir]"""
import sys, json
sys.path.insert(0, __file__.rsplit('/',1)[0])
import build_facts
from aq import facts as F, sym
fx = F.Facts(build_facts.facts_dir())
name = sys.argv[1]
cands = [b for b in fx.bodies.values() if name in b.short]
if len(cands) != 1 and '--all' not in sys.argv:
    ex=[b for b in cands if b.short==name]
    if len(ex)==1: cands=ex
    else:
        print('\n'.join(b.short for b in cands)); sys.exit()
for b in cands:
    print('==', b.name, b.where(), len(b.blocks), 'blocks')
    if '--mir' in sys.argv:
        for i, bl in enumerate(b.blocks):
            if bl['cleanup'] and '--cleanup' not in sys.argv: continue
            print(' bb%d:' % i)
            for s in bl['stmts']:
                if s['k']=='dead': continue
                print('    ', json.dumps(s))
            print('    ->', json.dumps(bl['term']))
        print(' locals:', [(i,l['ty']) for i,l in enumerate(b.locals)])
        print(' debug:', b.d['debug'])
    else:
        ps = sym.Evaluator(fx, b, unroll=int(sys.argv[sys.argv.index('--unroll')+1]) if '--unroll' in sys.argv else 1).run()
        print(len(ps), 'paths')
        for p in ps:
            if p.end == 'unreachable': continue
            print(' PATH', p.end, p.blocks if '--blocks' in sys.argv else '')
            for a in p.atoms: print('    if', sym.atom_text(fx, a))
            for e in p.effects:
                if e[0]=='call': print('    call', sym.tail2(e[1]), '(', ', '.join(sym.show(x) for x in e[2]), ') @', e[4])
                elif e[0]=='write': print('    write', sym.show(e[1]), ':=', sym.show(e[2]))
                elif e[0]=='agg' and '--agg' in sys.argv: print('    agg', e[1], e[2])
                elif e[0]=='drop' and '--drop' in sys.argv: print('    drop', sym.show(e[1]))
                elif e[0]=='assert': print('    assert', e[1])
            print('    =>', sym.show(p.ret) if p.ret else None)
