#!/usr/bin/env python3
"""Regenerate /verif/MANIFEST.json from the rule files that exist (keeps it valid at all times)."""
import importlib, json, os, sys
HERE = os.path.dirname(os.path.abspath(__file__))
VERIF = os.path.dirname(HERE)
sys.path.insert(0, HERE)

CLAIMS = {
 # id: (technique, level text, level note, design ref)
 "C13": ("layout/discriminant facts from rustc + symbolic path tables of writers and parsers compared with a BEP 15 table",
         "Proof over a finite obligation set: for zerocopy types the serialised form is the memory image, so rustc's layout_of facts (offsets, widths, big-endian leaf types, alignment 1), the enum discriminants, the literal action codes of every writer, the dispatch tables of both parsers and the complete path table of Request::parse_bytes decide the wire format for all field values.",
         "Trusted: rustc layout computation, zerocopy IntoBytes/FromBytes/TryFromBytes, byteorder; not decided: Vec payload round trip through zerocopy slice casts.",
         "DESIGN.md section 2, C13"),
 "C10": ("decision tables of the deadline functions + dataflow origin of every cleaning predicate, clock sample and stored deadline",
         "Proof over listed obligations: ValidUntil::valid is exactly `deadline > now` and the constructors exactly `clock sample + offset` (complete decision tables of loop-free functions); each of the six retain predicates over peers / pending offers returns exactly valid(now) of the retained element, `now` is chased through all callers to one seconds_elapsed() sample of the tracker's single ServerStartInstant, and every non-stopped announce path stores a deadline whose origin is ValidUntil::new(start, max_peer_age) (max_offer_age for offers).",
         "Trusted: retain semantics of indexmap/arrayvec, std Instant; not decided: when the timer fires (cadence of cleaning passes).",
         "DESIGN.md section 2, C10"),
 "C05": ("normalised decision table of the validator + dataflow origin of id bytes, MAC input and key",
         "Proof over listed obligations: the complete decision table of connection_id_valid (two paths) equals `MAC(issue, source ip) matches in constant time AND issue + max_age > now AND issue <= now + 60` with both additions in u64 after widening from u32; id construction, MAC input order (issue time then ip octets, never the port), key provenance (32 getrandom bytes, error propagated, one instance per process, never reassigned) and the clock writer are extracted as expression trees.",
         "Trusted: BLAKE3 keyed hash (2^-32 guessing chance is the statement's own caveat), constant_time_eq, getrandom; not decided: wall-clock cadence of update_elapsed.",
         "DESIGN.md section 2, C05"),
 "C11": ("path-sensitive guard analysis (allows() true edge before every swarm sink), decision tables, error-propagation discipline of the reload parser",
         "Proof over listed obligations: on every enumerated path of the four announce handlers each call that reaches swarm state or per-connection announce bookkeeping is preceded by the true edge of allows(configured mode, this request's info hash) and the false edge builds the error reply; allows() tables; the three torrent retain closures decide on allows() first; ArcSwap::store receives only the Ok payload of create_from_path, in which every fallible step is `?`-propagated; the SIGUSR1 handlers reload the shared list.",
         "Trusted: arc_swap, hashbrown, hex, str::trim. Paths are enumerated with loops unrolled once; feasibility is not solved.",
         "DESIGN.md section 2, C11"),
 "C06": ("path-sensitive guard/effect analysis of both UDP back ends (validator true edge before every non-connect reply; per-datagram send count; origin of txid and destination)",
         "Necessary conditions decided on every enumerated path: the complete reply table of handle_request in both back ends (request kind x validator outcome x access list -> reply kind, transaction id and destination), error replies for sendable parse errors only under a valid id for (source, that error's id), per-datagram slices of the mio receive loop with at most one send (exactly one when answered, none for port 0), the io_uring queue/send path keeping reply and address together, 16-byte connect reply <= smallest accepted connect request, scrape order and limit origin; the mio resend buffer only receives a reply after its single send_to failed, with queueing enabled, and each queued reply is retried once with queueing off.",
         "Not decided: kernel delivery (whether a send that reported an error delivered anything); the io_uring request buffer size question is decided under C18. Receive loop unrolled once (quick) / twice (thorough); path feasibility not solved.",
         "DESIGN.md section 2, C06"),
 "C03": ("closed-world taint query (request address fields never read), inter-procedural origin chase of the stored ip over all callers, constructor discipline, complete decision tables of the canonicalisation",
         "Proof over listed obligations: AnnounceRequest.ip_address has zero reads in aquatic_udp (positive control: .port), HTTP/WS requests have no address field or query key; the ip that forms the peer-map key is chased hop by hop through every caller to recv_from().1 / the recvmsg name / TcpStream::peer_addr or parse_forwarded_header's result, switched exactly by runs_behind_reverse_proxy; CanonicalSocketAddr literals exist only in its constructor whose decision table is exactly ::ffff:a.b.c.d -> V4(a.b.c.d, port); the WebTorrent family classifier has the same 12-byte pattern; family selection uses the canonical address.",
         "Trusted: kernel-reported addresses, httparse, std IpAddr parsing. Not decided: dual-stack kernel behaviour.",
         "DESIGN.md section 2, C03"),
 "C08": ("exhaustive path/effect tables of the WebTorrent peer bookkeeping + identity-pair guard analysis of the ownership rule",
         "Necessary conditions decided on every enumerated path: status table; the complete (entry x status x old seeder flag) effect table of insert_or_update_peer equals delta = new_seeder - old_seeder with the right structural operation; connection-closed and cleaning effects; closed set of functions that mutate the peer map or the seeder counter; every update of an existing entry and every removal on connection close is dominated by equality of BOTH identity components (socket worker id, connection id) - the rule that exposed two genuine defects, repaired by fix: commits 0628e14 and 259330c; reply counts read after the update; scrape only reports stored torrents.",
         "Not decided: equivalence with a reference tracker over all histories (the local effect tables are necessary, not sufficient); indexmap semantics trusted.",
         "DESIGN.md section 2, C08"),
 "C15": ("wire schema recovered from the derived serde code (MIR) + pairwise unambiguity of untagged variants + path analysis of the hand-written 20-byte visitor",
         "Necessary conditions: for InMessage / OutMessage / ScrapeRequestInfoHashes no earlier untagged variant can accept a later variant's output (required keys, serde(default), tag enums and skip_serializing_if recovered from the derived Deserialize/Serialize bodies); Text and Binary frames go through the same deserialiser; the visitor rejects short input and chars > U+00FF and tests that the input is exhausted after 20 chars (this rule exposed a genuine defect, repaired by fix: commit da612f4); the encoder writes one char per byte into a 40-byte buffer.",
         "Trusted: serde derive semantics, serde_json / simd-json (string escaping, numbers). The SDP round trip itself is not decided.",
         "DESIGN.md section 2, C15"),
 "C18": ("constant/layout relations: worst-case reply size as a linear form (rustc layouts, abstract output stream of the bencode writers) vs buffer constants; start-up validation extracted as a linear inequality and solved",
         "Necessary and, for the listed reply kinds, sufficient size conditions: for every (tracker, back end, reply kind) the worst-case size a + b*limit derived from the code is compared with the buffer constant; a limit not bounded by its type must be bounded by a validation that dominates the first thread spawn and whose result is propagated - its inequality is extracted and solved (udp: 454 / 112 peers, 170 torrents; http: 443 peers); the http scrape count is bounded by what fits a request buffer; defaults fit. The rule exposed six genuine defects, repaired by fix: commits ffb3202 and 23f73cc; the io_uring request buffer is a recorded known finding.",
         "Not decided: OS-level short writes (outside the property's quantifier); itoa digit bound and the 31-byte minimum per info_hash parameter are stated assumptions.",
         "DESIGN.md section 2, C18"),
 "C19": ("closed-world spawn inventory + dataflow of every JoinHandle into the watched vector + CFG reachability argument for the watchdog loop",
         "Necessary conditions: every Builder::spawn / spawn_prometheus_endpoint result reaches join_handles.push on all paths that get to the watchdog; from the true edge of is_finished() no loop back edge is reachable (the only continuation is a return) and run() has no Ok return on any path; poll sleep constant 5 <= 9 s; worker closures return the worker's own Result and do not outlive it; no catch_unwind/resume_unwind in tracker crates (positive control present); all periodic glommio timer futures return Some on every path.",
         "Not decided: glommio propagating task panics to LocalExecutor::run, actual latency (dependency/OS behaviour).",
         "DESIGN.md section 2, C19"),
 "C04": ("may-hold dataflow over RAII guard locals -> lock-order graph over all functions, closures and callees; path analysis of the announce-in-flight marker",
         "For every schedule: the lock-order graph computed from all 9 acquisition sites (guard regions from acquisition to drop/move, callee and closure summaries) contains only shard -> torrent edges (no torrent -> shard, no shard -> shard, no torrent -> torrent), and no blocking call (recv, sleep, join, poll, std locks) is made under a guard - this decides deadlock freedom w.r.t. these locks. Lost-announce window: the cleaner drops a permitted torrent only on paths with (Arc::get_mut is Some or strong_count == 1) AND is_empty, in a retain over the shard write guard. Region obligations: Arc clone / entry() under the shard guard, swarm mutation under torrent.write, PeerMap methods lock-free.",
         "Trusted: parking_lot semantics, Arc::get_mut. Not decided: linearizability of multi-torrent scrapes (each torrent is read atomically; the set is not).",
         "DESIGN.md section 2, C04"),
 "C01": ("exhaustive path/effect analysis of the UDP peer storage (ordering, key origin, counter coherence, closed-world mutators), evaluated as siblings with the HTTP copy",
         "Necessary conditions on every enumerated path of PeerMap::announce (180 paths) and the storage helpers: status table; remove < count < extract < insert on one representation arm with the single key (source ip, announced port); reply counters are .0/.1 of the post-removal accessor; stopped never inserts, everything else exactly once with is_seeder = (status == Seeding); Small->Large exactly when full and inserting; cached seeder counter moves +1/-1 exactly with the affected peer's flag and has a closed set of writers; representation switches are lossless at the ArrayVec capacity; scrape and announce use the same accessors.",
         "Not decided: that these local facts compose into equivalence with a reference tracker over all histories (IndexMap/ArrayVec semantics, arithmetic of counts).",
         "DESIGN.md section 2, C01"),
 "C07": ("sibling evaluation of the C01 obligations on the HTTP storage + scrape and cleaning path tables",
         "Same obligations as C01 on the HTTP near-clone (an asymmetric edit of one copy fails one property and not the other), plus: scrape iterates take(min(len, max_scrape_torrents)) of the request order into a BTreeMap with zeros for unknown torrents; the torrent retain closure drops forbidden torrents first and keeps a torrent iff clean_and_get_num_peers(now) > 0 for its representation.",
         "Not decided: history equivalence as for C01.",
         "DESIGN.md section 2, C07"),
 "C02": ("normalised expression-tree comparison of the selection arithmetic with a hand-proved skeleton; clamp decision tables; path analysis of the exclusion filters",
         "Decided: the numwant clamp tables (udp: <= 0 -> max, else min(max, n); http: None|Some(0) -> max, Some(n) -> min(n, max); ws: min(offers, max_offers)) with the configured limit as origin; the guard and both get_range arguments of the three extract_response_peers implementations equal the reference skeleton (middle = len/2, h, off1 in [0, max(1, middle-h)), off2 in [middle, max(middle+1, len-h)), ends off+h), udp and http copies identical; small maps take(max); WebTorrent: every extend goes through a != sender filter and every return leaves the truncation loop on its false edge; udp/http remove the announcer before extracting.",
         "The bounds themselves follow from the hand argument recorded in rules/C02.py. Not decided: distinctness/membership of returned peers (indexmap), behaviour over RNG outcomes. Stated risk: an equivalent reformulation of the arithmetic would be reported.",
         "DESIGN.md section 2, C02"),
 "C09": ("path/effect analysis of the offer and answer relays with identity of the zipped receiver tuple tracked through projections",
         "Necessary conditions on every enumerated path: each forwarded offer is preceded in its iteration by exactly one expectation insert on the SENDER's entry keyed (receiver id, that offer's id); all six fields of a forwarded offer (expectation, routing pair, offer, offer id) project from the same zip item; receivers are zip(offers, extract_response_peers(min(offers, max_offers), sender)) with no reordering adapter; handle_offers/handle_answer only on the status != Stopped edge; handle_answer's complete three-row table (peer gone -> nothing; expectation consumed by swap_remove -> AnswerOutMessage to the offering peer's own (consumer, connection) pair; otherwise ErrorResponse to the answerer); the selection function that produces the receivers never returns the sender, truncates to its limit and returns everyone when there are no more others than that (so min(offers, max_offers, others) offers are forwarded).",
         "Not decided: multi-connection offer/answer histories (needs C08's bookkeeping to be right); expiry of expectations is decided under C10.",
         "DESIGN.md section 2, C09"),
 "C20": ("ordering/guard analysis of the export protocol, origin of export fields and totals, path table of the tally messages, CFG dominance for the statistics worker",
         "Necessary conditions: File::create(tmp) < both cleaning passes < flush < drop < rename(tmp, path) on every exporting path, rename only on the Ok edge of flush, tmp = path.with_extension (same directory), nobody else creates files except the statistics page writer; export lines carry version, info hash and .0/.1 of that torrent's clean_and_get_num_peers, only on num_peers != 0; tally messages: PeerRemoved names the removed entry's id, PeerAdded the request's id, id change sends both, same id none (rule exposed a genuine defect, fix: c58c050); cleaners emit PeerRemoved per expired peer; worker +1/-1 dominated by the matching arm; totals stored after both passes from the passes' results; peer total, export line and per-peer PeerRemoved of a torrent sit behind the access-list test of the same cleaning loop (rule exposed a second genuine defect - totals, tallies and export of access-list-dropped torrents - first recorded, then repaired by fix: 34bbff2).",
         "Not decided: statistics arithmetic over message histories, rename atomicity (POSIX).",
         "DESIGN.md section 2, C20"),
 "C14": ("abstract interpretation of the reply writers' output streams by a bencode grammar in the checker; reader/writer table agreement for requests; path analysis of the percent-decoder; serde schema unambiguity",
         "Necessary conditions: every output stream of the three reply writers (all paths, loops 0/1 times) is a well-formed bencoded dictionary with literal keys strictly ascending at each level and every length prefix agreeing with its payload (N*6 with 4+2 bytes per element of the same list, N*18 with 16+2, `20:` with a [u8; 20], len(msg) with msg), files keyed by a BTreeMap; request writer and reader agree key by key on the struct field and codec (urlencode/urldecode 20 bytes, itoa/parse::<u16|usize>, event literals vs from_str), unknown keys ignored; urldecode_20_bytes `?`-checks every char, compares with 255, decodes exactly two hex chars and tests exhaustion; untagged Response is unambiguous.",
         "Trusted: serde_bencode, urlencoding, hex, itoa. Observation not armed: the parser caps `key` at 100 encoded bytes while the writer does not.",
         "DESIGN.md section 2, C14"),
 "C16": ("normalised expression comparison of the framing arithmetic, origin analysis of routing indices, CFG argument for the connection loop",
         "Shape clauses only: in write_response the body is written after the header, the fullness test is position+2 > len, the trailer literal, the Content-Length value itoa(body+2) and the sent slice ..header+body+2 use the same constant, digit cells are blanked before being rewritten at the same offset and 10^8 exceeds the buffer; announces and every scrape part are sent to calculate_request_consumer_index(config, hash) = hash[0] % swarm_workers with pending count = number of groups; the scrape list is cut with take(max_scrape_torrents) BEFORE partitioning (a rule that exposed a genuine defect, fix: 9d81575); the connection loop is (read, handle, write)* with write_response(handle_request(read_request().0, ..)) and cannot loop again when keep-alive is off; SO_REUSEPORT before bind.",
         "Not decided: everything about a running tracker - TCP segmentation, scheduling, ordering across connections, isolation of malformed requests.",
         "DESIGN.md section 2, C16"),
 "C17": ("closed-world analysis of every routing-pair construction, CFG must-pass-through for the clean-up, path analysis of the record-before-send and pending-scrape typestate rules",
         "Shape clauses: all OutMessageMeta constructions take (consumer id, connection key) from one source object or one zipped receiver tuple; InMessageMeta only from the connection's own ids, which come from the socket worker's index and its slot-map insert; the swarm worker sends (meta, msg) to meta's own consumer id and the socket worker looks meta.connection_id up in its own map; no return of ConnectionRunner::run bypasses after_close, which groups records by the same routing function as the announces and carries the closing connection's identity; forwarding only after recording (Vacant insert or equal stored id), a different stored id is refused, stopped forgets; a pending scrape is registered only under a non-empty worker map (idiom 3) - the rule that exposed the empty-array defect, fix: bdcd121 - and the merged reply is sent exactly when the counter reaches zero.",
         "Not decided: delivery, back-pressure, close-frame vs reset timing.",
         "DESIGN.md section 2, C17"),
 "C12": ("call-graph reachability from the network entry points + exhaustive enumeration of panic-capable MIR sites against a reviewed table; guard obligations by path analysis; origin of allocation sizes",
         "An inventory, not a proof: 200 entry bodies (socket read paths, swarm handlers, all parse functions and serde visitors of the protocol crates), ~400 reachable workspace bodies, every Assert terminator and panic-capable call among them (110 groups / 204 sites on the pinned tree) must be covered by a reviewed line of aqv/tables/C12_sites.json with a multiplicity ceiling - a new unwrap, index, expect, unchecked subtraction or panic! reachable from network input is reported with its location; named sites carry machine-checked guards (numwant unwrap only for peers_wanted > 0, selection arithmetic and random_range only on the len > max edge with non-empty ranges, seeder decrements under the seeder flag, udp action read via get(8..12)); allocation sizes are constants, lengths, clamped limits or min/+ of those; protocol crates call no tracker crate; the only senders toward swarm workers in the http / ws socket workers sit behind a successful parse (rejected input cannot change tracker state). The deliberate panic! on a missing proxy header is a recorded known finding.",
         "Not decided: panics/allocation inside dependencies, release-mode wrapping of the reviewed arithmetic. A newly added panic-capable call that is in fact safe must be reviewed into the table (that is the rule's purpose).",
         "DESIGN.md section 2, C12"),
}

PENDING_REASON = "check under construction in this build phase (static rules designed in DESIGN.md section 2); not claimed until its rule set is validated both ways"


# clauses added in session 3 (rules R-C01-7, R-C06-8/9/10, R-C09-6, R-C10-6, R-C12 bound arithmetic, R-C16-6); appended to the level text
EXTRA = {
 "C01": " The cleaning pass forgets stopped-out torrents: every shard is pruned on every pass and the pruning closure drops a permitted torrent that is empty and solely owned.",
 "C06": " io_uring send buffers: message header and length are set per reply (msg_name / msg_namelen of the reply's own sockaddr, iov_len = bytes written), a buffer is released on every completion, failed or not, and is marked busy and tagged with its index when handed out; receive completions are handled with the helper, family flag and re-arm entry of the socket they came from. mio: each socket is registered under its own token, a readiness event reads that socket, and the receive loop is only left on recv_from -> WouldBlock.",
 "C09": " Aged-out expectations are pruned by retain(valid(now)) over every entry of expecting_answers in the cleaning pass (swap_remove reorders them, so position is not age).",
 "C10": " Every cleaning pass with a clock sample runs the per-family cleaner of both self.ipv4 and self.ipv6 in all three trackers, whatever the configuration.",
 "C12": " Overflow assertions whose operands are statically bounded (constants, std collection lengths, zero-extended narrower unsigned values) are discharged by bound arithmetic and need no table line; a reviewed site that moved to another function of the same crate is matched against the line it left.",
 "C16": " Each request is parsed from its own bytes: the receive window restarts at request_buffer[0..] for every request, grows by exactly the bytes read, and the parser is given exactly that window.",
}


def main():
    ids = [json.loads(l)["id"] for l in open(os.path.join(VERIF, "properties.jsonl"))]
    na_path = os.path.join(HERE, "not_applicable.json")
    na_reasons = json.load(open(na_path)) if os.path.exists(na_path) else {}
    checks, na = [], []
    for pid in ids:
        if pid in CLAIMS and os.path.exists(os.path.join(HERE, "rules", pid + ".py")):
            mod = importlib.import_module("rules." + pid)
            tech, text, note, ref = CLAIMS[pid]
            checks.append({
                "property_id": pid,
                "quick_cmd": "python3 /verif/aqv/check.py --property %s --tier quick" % pid,
                "thorough_cmd": "python3 /verif/aqv/check.py --property %s --tier thorough" % pid,
                "evidence_file": "/verif/evidence/%s.json" % pid,
                "replay_cmd_template": "python3 /verif/aqv/check.py --property %s --replay {path}" % pid,
                "engine": "aqv",
                "level_claimed": {"category": mod.PROP.level, "text": text + EXTRA.get(pid, ""), "design_ref": ref},
                "level_note": note,
                "technique": tech,
            })
        else:
            na.append({"property_id": pid, "reason": na_reasons.get(pid, PENDING_REASON)})
    m = {
        "version": 1,
        "setup_cmd": "python3 /verif/aqv/setup.py",
        "hooks": {
            "guard": "greatest_ape_aquatic_verif",
            "enable": "no hooks exist: the analysis reads MIR facts emitted by a rustc_private driver under `cargo +nightly check` and never runs the code; a hook would be enabled with RUSTFLAGS='--cfg greatest_ape_aquatic_verif'",
            "baseline_off_cmd": "cd /repo && cargo test --workspace --no-fail-fast --offline",
            "source_commits": [],
            "add_only": True,
        },
        "engines": [
            {"name": "aqfacts", "path": "/verif/aqfacts", "serves_properties": [c["property_id"] for c in checks],
             "kind_free_text": "rustc_private compiler driver (nightly) injected with RUSTC_WORKSPACE_WRAPPER: dumps pre-borrowck MIR with resolved callees, ADT layouts, discriminants, constants and impls of all 15 workspace crates as JSON facts, regenerated from /repo's working tree on every run"},
            {"name": "aqv", "path": "/verif/aqv", "serves_properties": [c["property_id"] for c in checks],
             "kind_free_text": "static analysis library over the facts (CFG, edge dominance, symbolic path enumeration with expression trees, call graph, closed-world who-may-call queries) and per-property rule files; nothing in /repo is executed or solved"},
        ],
        "checks": checks,
        "not_applicable": na,
        "notes": "Static analysis only. exit 0 = all obligations hold (listed known findings printed as KNOWN-FINDING); exit 1 = VIOLATION lines; exit 2 = facts could not be built from the working tree.",
    }
    json.dump(m, open(os.path.join(VERIF, "MANIFEST.json"), "w"), indent=1)
    print("claimed:", [c["property_id"] for c in checks], "not_applicable:", len(na))


if __name__ == "__main__":
    main()
