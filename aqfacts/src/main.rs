// aqfacts: rustc_private driver that dumps pre-borrowck MIR (mir_promoted), ADT
// layouts, constants and impls of one workspace crate as a JSON fact file.
// Injected with RUSTC_WORKSPACE_WRAPPER under `cargo +nightly check`.
#![feature(rustc_private)]
#![allow(clippy::all)]

extern crate rustc_abi;
extern crate rustc_driver;
extern crate rustc_hir;
extern crate rustc_interface;
extern crate rustc_middle;
extern crate rustc_span;

use std::collections::{BTreeMap, BTreeSet};
use std::fmt::Write as _;

use rustc_driver::Compilation;
use rustc_hir::def::DefKind;
use rustc_hir::def_id::{DefId, LocalDefId, LOCAL_CRATE};
use rustc_interface::interface::Compiler;
use rustc_middle::mir::{
    self, AggregateKind, BasicBlock, Body, BorrowKind, CastKind, Const as MConst, ConstValue,
    Operand, Place, ProjectionElem, Rvalue, StatementKind, TerminatorKind, UnwindAction,
};
use rustc_middle::ty::print::{with_crate_prefix, with_no_trimmed_paths, PrintTraitRefExt};
use rustc_middle::ty::{self, Instance, Ty, TyCtxt, TypingEnv};
use rustc_span::Span;

mod json;
use json::J;

struct Cb {
    out: Option<String>,
}

impl rustc_driver::Callbacks for Cb {
    fn after_expansion<'tcx>(&mut self, _c: &Compiler, tcx: TyCtxt<'tcx>) -> Compilation {
        if let Some(out) = &self.out {
            let text = with_crate_prefix!(with_no_trimmed_paths!(dump_crate(tcx)));
            let krate = tcx.crate_name(LOCAL_CRATE).to_string();
            let text = text.replace("crate::", &format!("{}::", krate));
            std::fs::write(out, text).expect("aqfacts: cannot write fact file");
        }
        Compilation::Continue
    }
}

fn main() {
    let args: Vec<String> = std::env::args().collect();
    // argv = [driver, rustc_path, rustc args...]
    let mut rargs: Vec<String> = vec!["rustc".to_string()];
    rargs.extend(args.iter().skip(2).cloned());
    let mut crate_name = None;
    let mut crate_type = "lib".to_string();
    let mut is_test = false;
    let mut i = 0;
    while i < rargs.len() {
        if rargs[i] == "--crate-name" && i + 1 < rargs.len() {
            crate_name = Some(rargs[i + 1].clone());
        }
        if rargs[i] == "--crate-type" && i + 1 < rargs.len() {
            crate_type = rargs[i + 1].clone();
        }
        if rargs[i] == "--test" {
            is_test = true;
        }
        i += 1;
    }
    let outdir = std::env::var("AQFACTS_OUT").ok();
    let out = match (&crate_name, &outdir) {
        (Some(n), Some(d))
            if n != "___" && !n.starts_with("build_script_") && !is_test =>
        {
            let ty = if crate_type == "bin" { "bin" } else { "lib" };
            Some(format!("{}/{}.{}.json", d, n, ty))
        }
        _ => None,
    };
    let mut cb = Cb { out };
    rustc_driver::run_compiler(&rargs, &mut cb);
}

// ---------------------------------------------------------------------------

struct Cx<'tcx> {
    tcx: TyCtxt<'tcx>,
    krate: String,
    // monomorphic ADT types (from workspace crates) seen anywhere, for layouts
    mono: BTreeMap<String, Ty<'tcx>>,
    cur_locals: Vec<Ty<'tcx>>,
}

fn dump_crate<'tcx>(tcx: TyCtxt<'tcx>) -> String {
    let krate = tcx.crate_name(LOCAL_CRATE).to_string();
    let mut cx = Cx { tcx, krate: krate.clone(), mono: BTreeMap::new(), cur_locals: Vec::new() };

    let mut bodies = Vec::new();
    for ldid in tcx.hir_body_owners() {
        let kind = tcx.def_kind(ldid);
        match kind {
            DefKind::Fn
            | DefKind::AssocFn
            | DefKind::Closure
            | DefKind::SyntheticCoroutineBody => {}
            _ => continue, // consts/statics/anon consts: evaluated below instead
        }
        let (body, promoted) = tcx.mir_promoted(ldid);
        let body = body.borrow();
        let promoted = promoted.borrow();
        let name = cx.def_path(ldid.to_def_id());
        bodies.push((name.clone(), cx.body(&body, ldid, kind, None)));
        for (pi, pb) in promoted.iter_enumerated() {
            let pname = format!("{}::{{promoted#{}}}", name, pi.index());
            bodies.push((pname, cx.body(pb, ldid, kind, Some(pi.index()))));
        }
    }

    let mut adts = Vec::new();
    let mut consts = Vec::new();
    let mut impls = Vec::new();
    for ldid in tcx.hir_crate_items(()).definitions() {
        let did = ldid.to_def_id();
        match tcx.def_kind(did) {
            DefKind::Struct | DefKind::Enum | DefKind::Union => {
                adts.push((cx.def_path(did), cx.adt(did)));
            }
            DefKind::Const { .. } | DefKind::AssocConst { .. } | DefKind::Static { .. } => {
                if let Some(j) = cx.konst(did) {
                    consts.push((cx.def_path(did), j));
                }
            }
            DefKind::Impl { .. } => {
                impls.push(cx.imp(did));
            }
            _ => {}
        }
    }

    let mut layouts = Vec::new();
    let mono = std::mem::take(&mut cx.mono);
    for (name, ty) in mono.iter() {
        if let Some(j) = cx.layout(*ty) {
            layouts.push((name.clone(), j));
        }
    }

    let mut root = J::obj();
    root.set("crate", J::s(&krate));
    root.set("bodies", J::Obj(bodies));
    root.set("adts", J::Obj(adts));
    root.set("consts", J::Obj(consts));
    root.set("impls", J::Arr(impls));
    root.set("layouts", J::Obj(layouts));
    root.to_string()
}

impl<'tcx> Cx<'tcx> {
    fn def_path(&self, did: DefId) -> String {
        self.tcx.def_path_str(did)
    }

    fn ty_s(&mut self, ty: Ty<'tcx>) -> String {
        self.note_ty(ty);
        format!("{}", ty)
    }

    fn note_ty(&mut self, ty: Ty<'tcx>) {
        use rustc_middle::ty::TypeVisitableExt;
        for arg in ty.walk() {
            if let Some(t) = arg.as_type() {
                if let ty::Adt(def, _) = t.kind() {
                    if t.has_param() || t.has_infer() || t.has_aliases() || t.has_escaping_bound_vars() || t.has_placeholders() {
                        continue;
                    }
                    let cn = self.tcx.crate_name(def.did().krate).to_string();
                    if cn.starts_with("aquatic") {
                        let t = self.tcx.erase_and_anonymize_regions(t);
                        let key = format!("{}", t);
                        if !key.contains("'") {
                            self.mono.entry(key).or_insert(t);
                        }
                    }
                }
            }
        }
    }

    fn span(&self, sp: Span) -> J {
        let sm = self.tcx.sess.source_map();
        let lo = sm.lookup_char_pos(sp.lo());
        let hi = sm.lookup_char_pos(sp.hi());
        let mut j = J::obj();
        let file = match &lo.file.name {
            rustc_span::FileName::Real(r) => r
                .local_path()
                .map(|p| p.to_string_lossy().to_string())
                .unwrap_or_else(|| format!("{:?}", lo.file.name)),
            other => format!("{:?}", other),
        };
        j.set("file", J::s(&file));
        j.set("lo", J::n(lo.line as i128));
        j.set("hi", J::n(hi.line as i128));
        j
    }

    fn line(&self, sp: Span) -> i128 {
        // line of the outermost user-code call site (macro expansions map to their invocation)
        let sp = sp.source_callsite();
        self.tcx.sess.source_map().lookup_char_pos(sp.lo()).line as i128
    }

    fn body(&mut self, body: &Body<'tcx>, owner: LocalDefId, kind: DefKind, promoted: Option<usize>) -> J {
        let tcx = self.tcx;
        self.cur_locals = body.local_decls.iter().map(|d| d.ty).collect();
        let mut j = J::obj();
        let kind_s = if promoted.is_some() {
            "promoted"
        } else {
            match kind {
                DefKind::Fn => "fn",
                DefKind::AssocFn => "method",
                DefKind::Closure => {
                    if tcx.is_coroutine(owner.to_def_id()) { "coroutine" } else { "closure" }
                }
                _ => "other",
            }
        };
        j.set("kind", J::s(kind_s));
        let parent = tcx.opt_local_parent(owner).map(|p| self.def_path(p.to_def_id()));
        j.set("parent", parent.map(|p| J::s(&p)).unwrap_or(J::Null));
        j.set("span", self.span(body.span));
        j.set("arg_count", J::n(body.arg_count as i128));
        // impl self type / trait for methods
        if let Some(p) = tcx.opt_local_parent(owner) {
            if let DefKind::Impl { .. } = tcx.def_kind(p) {
                let st = tcx.type_of(p).instantiate_identity().skip_norm_wip();
                j.set("impl_self", J::s(&format!("{}", st)));
                if let Some(tr) = tcx.impl_opt_trait_ref(p) {
                    let tr = tr.instantiate_identity().skip_norm_wip();
                    j.set("impl_trait", J::s(&format!("{}", tr.print_only_trait_path())));
                }
            }
        }
        let mut locals = Vec::new();
        for (_l, d) in body.local_decls.iter_enumerated() {
            let mut lj = J::obj();
            lj.set("ty", J::s(&self.ty_s(d.ty)));
            lj.set("user", J::Bool(d.is_user_variable()));
            locals.push(lj);
        }
        j.set("locals", J::Arr(locals));
        let mut dbg = Vec::new();
        for v in body.var_debug_info.iter() {
            let mut vj = J::obj();
            vj.set("name", J::s(v.name.as_str()));
            match &v.value {
                mir::VarDebugInfoContents::Place(p) => vj.set("place", self.place(p)),
                mir::VarDebugInfoContents::Const(c) => vj.set("const", self.konst_op(c, body, owner)),
            }
            dbg.push(vj);
        }
        j.set("debug", J::Arr(dbg));
        let mut blocks = Vec::new();
        for (_bb, data) in body.basic_blocks.iter_enumerated() {
            let mut bj = J::obj();
            bj.set("cleanup", J::Bool(data.is_cleanup));
            let mut stmts = Vec::new();
            for st in data.statements.iter() {
                match &st.kind {
                    StatementKind::Assign(b) => {
                        let (pl, rv) = &**b;
                        let mut sj = J::obj();
                        sj.set("k", J::s("assign"));
                        sj.set("lhs", self.place(pl));
                        sj.set("rv", self.rvalue(rv, body, owner));
                        sj.set("line", J::n(self.line(st.source_info.span)));
                        if st.source_info.span.from_expansion() {
                            sj.set("exp", J::Bool(true));
                        }
                        stmts.push(sj);
                    }
                    StatementKind::SetDiscriminant { place, variant_index } => {
                        let mut sj = J::obj();
                        sj.set("k", J::s("setdiscr"));
                        sj.set("lhs", self.place(place));
                        sj.set("variant", J::n(variant_index.index() as i128));
                        stmts.push(sj);
                    }
                    StatementKind::StorageDead(l) => {
                        let mut sj = J::obj();
                        sj.set("k", J::s("dead"));
                        sj.set("l", J::n(l.index() as i128));
                        stmts.push(sj);
                    }
                    _ => {}
                }
            }
            bj.set("stmts", J::Arr(stmts));
            let term = data.terminator();
            bj.set("term", self.terminator(term, body, owner));
            blocks.push(bj);
        }
        j.set("blocks", J::Arr(blocks));
        j
    }

    fn bb(b: BasicBlock) -> J {
        J::n(b.index() as i128)
    }

    fn unwind(u: &UnwindAction) -> J {
        match u {
            UnwindAction::Cleanup(b) => Self::bb(*b),
            _ => J::Null,
        }
    }

    fn terminator(&mut self, term: &mir::Terminator<'tcx>, body: &Body<'tcx>, owner: LocalDefId) -> J {
        let tcx = self.tcx;
        let mut j = J::obj();
        j.set("line", J::n(self.line(term.source_info.span)));
        if term.source_info.span.from_expansion() {
            j.set("exp", J::Bool(true));
        }
        match &term.kind {
            TerminatorKind::Goto { target } => {
                j.set("k", J::s("goto"));
                j.set("t", Self::bb(*target));
            }
            TerminatorKind::SwitchInt { discr, targets } => {
                j.set("k", J::s("switch"));
                j.set("op", self.operand(discr, body, owner));
                let dty = discr.ty(&body.local_decls, tcx);
                j.set("ty", J::s(&format!("{}", dty)));
                let mut ts = Vec::new();
                for (v, t) in targets.iter() {
                    ts.push(J::Arr(vec![J::n(v as i128), Self::bb(t)]));
                }
                j.set("targets", J::Arr(ts));
                j.set("otherwise", Self::bb(targets.otherwise()));
            }
            TerminatorKind::UnwindResume => j.set("k", J::s("resume")),
            TerminatorKind::UnwindTerminate(_) => j.set("k", J::s("terminate")),
            TerminatorKind::Return => j.set("k", J::s("return")),
            TerminatorKind::Unreachable => j.set("k", J::s("unreachable")),
            TerminatorKind::CoroutineDrop => j.set("k", J::s("coroutine_drop")),
            TerminatorKind::Drop { place, target, unwind, .. } => {
                j.set("k", J::s("drop"));
                j.set("place", self.place(place));
                j.set("t", Self::bb(*target));
                j.set("unwind", Self::unwind(unwind));
            }
            TerminatorKind::Call { func, args, destination, target, unwind, fn_span, .. } => {
                j.set("k", J::s("call"));
                j.set("f", self.callee(func, body, owner));
                let mut ops = Vec::new();
                let mut tys = Vec::new();
                for a in args.iter() {
                    ops.push(self.operand(&a.node, body, owner));
                    let t = a.node.ty(&body.local_decls, tcx);
                    tys.push(J::s(&self.ty_s(t)));
                }
                j.set("ops", J::Arr(ops));
                j.set("op_tys", J::Arr(tys));
                j.set("dest", self.place(destination));
                j.set("t", target.map(Self::bb).unwrap_or(J::Null));
                j.set("unwind", Self::unwind(unwind));
                j.set("fline", J::n(self.line(*fn_span)));
            }
            TerminatorKind::TailCall { func, args, .. } => {
                j.set("k", J::s("tailcall"));
                j.set("f", self.callee(func, body, owner));
                let mut ops = Vec::new();
                for a in args.iter() {
                    ops.push(self.operand(&a.node, body, owner));
                }
                j.set("ops", J::Arr(ops));
            }
            TerminatorKind::Assert { cond, expected, msg, target, unwind } => {
                j.set("k", J::s("assert"));
                j.set("cond", self.operand(cond, body, owner));
                j.set("expected", J::Bool(*expected));
                let (mk, mops): (String, Vec<&Operand<'tcx>>) = match &**msg {
                    mir::AssertKind::BoundsCheck { len, index } => ("bounds".into(), vec![len, index]),
                    mir::AssertKind::Overflow(op, a, b) => (format!("overflow:{:?}", op), vec![a, b]),
                    mir::AssertKind::OverflowNeg(a) => ("overflow_neg".into(), vec![a]),
                    mir::AssertKind::DivisionByZero(a) => ("div_zero".into(), vec![a]),
                    mir::AssertKind::RemainderByZero(a) => ("rem_zero".into(), vec![a]),
                    other => (format!("other:{:?}", std::mem::discriminant(other)), vec![]),
                };
                j.set("msg", J::s(&mk));
                let mut mo = Vec::new();
                for o in mops {
                    mo.push(self.operand(o, body, owner));
                }
                j.set("msg_ops", J::Arr(mo));
                j.set("t", Self::bb(*target));
                j.set("unwind", Self::unwind(unwind));
            }
            TerminatorKind::Yield { value, resume, resume_arg, drop } => {
                j.set("k", J::s("yield"));
                j.set("value", self.operand(value, body, owner));
                j.set("t", Self::bb(*resume));
                j.set("resume_arg", self.place(resume_arg));
                j.set("drop", drop.map(Self::bb).unwrap_or(J::Null));
            }
            TerminatorKind::FalseEdge { real_target, imaginary_target } => {
                j.set("k", J::s("false_edge"));
                j.set("t", Self::bb(*real_target));
                j.set("imag", Self::bb(*imaginary_target));
            }
            TerminatorKind::FalseUnwind { real_target, unwind } => {
                j.set("k", J::s("false_unwind"));
                j.set("t", Self::bb(*real_target));
                j.set("unwind", Self::unwind(unwind));
            }
            TerminatorKind::InlineAsm { .. } => j.set("k", J::s("asm")),
        }
        j
    }

    fn callee(&mut self, func: &Operand<'tcx>, body: &Body<'tcx>, owner: LocalDefId) -> J {
        let tcx = self.tcx;
        let fty = func.ty(&body.local_decls, tcx);
        let mut j = J::obj();
        match fty.kind() {
            ty::FnDef(def, args) => {
                j.set("def", J::s(&self.def_path(*def)));
                let mut av = Vec::new();
                for a in args.iter() {
                    if let Some(t) = a.as_type() {
                        av.push(J::s(&self.ty_s(t)));
                    } else if a.as_region().is_none() {
                        av.push(J::s(&format!("{}", a)));
                    }
                }
                j.set("args", J::Arr(av));
                // trait method? record trait + resolve
                if let Some(tr) = tcx.trait_of_assoc(*def) {
                    j.set("trait", J::s(&self.def_path(tr)));
                }
                let env = TypingEnv::post_analysis(tcx, owner.to_def_id());
                let res = std::panic::catch_unwind(std::panic::AssertUnwindSafe(|| {
                    Instance::try_resolve(tcx, env, *def, args).ok().flatten()
                }))
                .ok()
                .flatten();
                if let Some(inst) = res {
                    let rd = inst.def_id();
                    j.set("res", J::s(&self.def_path(rd)));
                    if let Some(imp) = tcx.impl_of_assoc(rd) {
                        let st = tcx.type_of(imp).instantiate_identity().skip_norm_wip();
                        j.set("res_self", J::s(&format!("{}", st)));
                    }
                    match inst.def {
                        ty::InstanceKind::Item(_) => {}
                        other => j.set("res_kind", J::s(&format!("{:?}", std::mem::discriminant(&other)))),
                    }
                }
            }
            _ => {
                j.set("indirect", self.operand(func, body, owner));
                j.set("ty", J::s(&self.ty_s(fty)));
            }
        }
        j
    }

    fn place(&mut self, p: &Place<'tcx>) -> J {
        let tcx = self.tcx;
        let mut j = J::obj();
        j.set("l", J::n(p.local.index() as i128));
        if !p.projection.is_empty() {
            let mut pj = Vec::new();
            let mut pty = self.cur_locals.get(p.local.index()).map(|t| mir::PlaceTy::from_ty(*t));
            for e in p.projection.iter() {
                let mut fname: Option<String> = None;
                let mut fowner: Option<String> = None;
                if let (ProjectionElem::Field(f, _), Some(pt)) = (e, pty) {
                    if let ty::Adt(def, _) = pt.ty.kind() {
                        fowner = Some(self.def_path(def.did()));
                        let v = match pt.variant_index {
                            Some(vi) => Some(def.variant(vi)),
                            None => if def.is_enum() { None } else { Some(def.non_enum_variant()) },
                        };
                        if let Some(v) = v {
                            if f.index() < v.fields.len() {
                                fname = Some(v.fields[f].name.as_str().to_string());
                            }
                        }
                    }
                }
                pty = match pty {
                    Some(pt) => std::panic::catch_unwind(std::panic::AssertUnwindSafe(|| {
                        pt.projection_ty(tcx, e)
                    })).ok(),
                    None => None,
                };
                pj.push(match e {
                    ProjectionElem::Deref => J::Arr(vec![J::s("d")]),
                    ProjectionElem::Field(f, t) => {
                        J::Arr(vec![J::s("f"), J::n(f.index() as i128), fname.map(|n| J::s(&n)).unwrap_or(J::Null), J::s(&self.ty_s(t)), fowner.map(|n| J::s(&n)).unwrap_or(J::Null)])
                    }
                    ProjectionElem::Index(l) => J::Arr(vec![J::s("i"), J::n(l.index() as i128)]),
                    ProjectionElem::ConstantIndex { offset, min_length, from_end } => J::Arr(vec![
                        J::s("c"),
                        J::n(offset as i128),
                        J::n(min_length as i128),
                        J::Bool(from_end),
                    ]),
                    ProjectionElem::Subslice { from, to, from_end } => {
                        J::Arr(vec![J::s("s"), J::n(from as i128), J::n(to as i128), J::Bool(from_end)])
                    }
                    ProjectionElem::Downcast(name, idx) => J::Arr(vec![
                        J::s("dc"),
                        J::n(idx.index() as i128),
                        name.map(|n| J::s(n.as_str())).unwrap_or(J::Null),
                    ]),
                    ProjectionElem::OpaqueCast(_) => J::Arr(vec![J::s("oc")]),
                    ProjectionElem::UnwrapUnsafeBinder(_) => J::Arr(vec![J::s("ub")]),
                });
            }
            j.set("p", J::Arr(pj));
        }
        j
    }

    fn operand(&mut self, o: &Operand<'tcx>, body: &Body<'tcx>, owner: LocalDefId) -> J {
        let mut j = J::obj();
        match o {
            Operand::Copy(p) => j.set("cp", self.place(p)),
            Operand::Move(p) => j.set("mv", self.place(p)),
            Operand::Constant(c) => j.set("c", self.konst_op(c, body, owner)),
            #[allow(unreachable_patterns)]
            _ => j.set("c", {
                let mut k = J::obj();
                k.set("opaque", J::s("runtime_checks"));
                k
            }),
        }
        j
    }

    fn konst_op(&mut self, c: &mir::ConstOperand<'tcx>, _body: &Body<'tcx>, owner: LocalDefId) -> J {
        let tcx = self.tcx;
        let mut j = J::obj();
        let ty = c.const_.ty();
        j.set("ty", J::s(&self.ty_s(ty)));
        // function item constants
        if let ty::FnDef(def, args) = ty.kind() {
            j.set("fn", J::s(&self.def_path(*def)));
            let env = TypingEnv::post_analysis(tcx, owner.to_def_id());
            let res = std::panic::catch_unwind(std::panic::AssertUnwindSafe(|| {
                Instance::try_resolve(tcx, env, *def, args).ok().flatten()
            }))
            .ok()
            .flatten();
            if let Some(inst) = res {
                j.set("res", J::s(&self.def_path(inst.def_id())));
            }
            return j;
        }
        match c.const_ {
            MConst::Unevaluated(uv, _) => {
                if let Some(p) = uv.promoted {
                    j.set("promoted", J::n(p.index() as i128));
                    return j;
                }
                j.set("def", J::s(&self.def_path(uv.def)));
            }
            _ => {}
        }
        let env = TypingEnv::post_analysis(tcx, owner.to_def_id());
        let val = std::panic::catch_unwind(std::panic::AssertUnwindSafe(|| {
            c.const_.eval(tcx, env, c.span).ok()
        }))
        .ok()
        .flatten();
        match val {
            Some(v) => self.const_value(&mut j, v, ty),
            None => {
                if let MConst::Ty(_, tc) = c.const_ {
                    j.set("opaque", J::s(&format!("{}", tc)));
                } else {
                    j.set("opaque", J::s("uneval"));
                }
            }
        }
        j
    }

    fn const_value(&mut self, j: &mut J, v: ConstValue, ty: Ty<'tcx>) {
        let tcx = self.tcx;
        match v {
            ConstValue::Scalar(mir::interpret::Scalar::Int(i)) => {
                let size = i.size();
                let bits = i.to_bits(size);
                let signed = matches!(ty.kind(), ty::Int(_));
                let val: i128 = if signed { size.sign_extend(bits) as i128 } else { bits as i128 };
                if bits > (i128::MAX as u128) && !signed {
                    j.set("int_s", J::s(&format!("{}", bits)));
                } else {
                    j.set("int", J::n(val));
                }
                if let ty::Adt(def, _) = ty.kind() {
                    if def.is_enum() {
                        for (vi, d) in def.discriminants(tcx) {
                            if d.val == bits {
                                j.set("variant", J::s(def.variant(vi).name.as_str()));
                            }
                        }
                    }
                }
            }
            ConstValue::Scalar(mir::interpret::Scalar::Ptr(ptr, _)) => {
                let (prov, off) = ptr.into_raw_parts();
                let aid = prov.alloc_id();
                if let Some(rustc_middle::mir::interpret::GlobalAlloc::Memory(a)) = tcx.try_get_global_alloc(aid) {
                    let a = a.inner();
                    let len = a.len();
                    let start = off.bytes() as usize;
                    if a.provenance().ptrs().is_empty() && start <= len && len - start <= 4096 {
                        let bytes = a.inspect_with_uninit_and_ptr_outside_interpreter(start..len);
                        j.set("bytes", J::s(&hex(bytes)));
                    } else {
                        j.set("opaque", J::s("ptr"));
                    }
                } else {
                    j.set("opaque", J::s("ptr"));
                }
            }
            ConstValue::ZeroSized => {
                j.set("zst", J::Bool(true));
            }
            ConstValue::Slice { alloc_id, meta } => {
                if let Some(rustc_middle::mir::interpret::GlobalAlloc::Memory(a)) = tcx.try_get_global_alloc(alloc_id) {
                    let a = a.inner();
                    let n = (meta as usize).min(a.len());
                    if n <= 65536 {
                        let bytes = a.inspect_with_uninit_and_ptr_outside_interpreter(0..n);
                        if let Ok(s) = std::str::from_utf8(bytes) {
                            j.set("str", J::s(s));
                        }
                        j.set("bytes", J::s(&hex(bytes)));
                    }
                }
            }
            ConstValue::Indirect { alloc_id, offset } => {
                if let Some(rustc_middle::mir::interpret::GlobalAlloc::Memory(a)) = tcx.try_get_global_alloc(alloc_id) {
                    let a = a.inner();
                    let start = offset.bytes() as usize;
                    let len = a.len();
                    if a.provenance().ptrs().is_empty() && start <= len && len - start <= 4096 {
                        let bytes = a.inspect_with_uninit_and_ptr_outside_interpreter(start..len);
                        j.set("bytes", J::s(&hex(bytes)));
                    } else if len >= start + 16 && is_slice_ref(ty) {
                        // fat pointer (&[u8] / &str): follow the pointer into its allocation
                        let raw = a.inspect_with_uninit_and_ptr_outside_interpreter(start..start + 16);
                        let off = u64::from_le_bytes(raw[0..8].try_into().unwrap()) as usize;
                        let n = u64::from_le_bytes(raw[8..16].try_into().unwrap()) as usize;
                        let mut done = false;
                        for (poff, prov) in a.provenance().ptrs().iter() {
                            if poff.bytes() as usize == start {
                                if let Some(rustc_middle::mir::interpret::GlobalAlloc::Memory(t)) = tcx.try_get_global_alloc(prov.alloc_id()) {
                                    let t = t.inner();
                                    if off + n <= t.len() && n <= 65536 {
                                        let bytes = t.inspect_with_uninit_and_ptr_outside_interpreter(off..off + n);
                                        if let Ok(s) = std::str::from_utf8(bytes) {
                                            j.set("str", J::s(s));
                                        }
                                        j.set("bytes", J::s(&hex(bytes)));
                                        done = true;
                                    }
                                }
                            }
                        }
                        if !done {
                            j.set("opaque", J::s("indirect"));
                        }
                    } else {
                        j.set("opaque", J::s("indirect"));
                    }
                }
            }
        }
    }

    fn rvalue(&mut self, rv: &Rvalue<'tcx>, body: &Body<'tcx>, owner: LocalDefId) -> J {
        let tcx = self.tcx;
        let mut j = J::obj();
        match rv {
            Rvalue::Use(o, ..) => j.set("use", self.operand(o, body, owner)),
            Rvalue::Repeat(o, n) => {
                j.set("repeat", self.operand(o, body, owner));
                j.set("n", J::s(&format!("{}", n)));
            }
            Rvalue::Ref(_, bk, p) => {
                j.set("ref", self.place(p));
                match bk {
                    BorrowKind::Mut { .. } => j.set("mut", J::Bool(true)),
                    BorrowKind::Fake(_) => j.set("fake", J::Bool(true)),
                    _ => {}
                }
            }
            Rvalue::RawPtr(k, p) => {
                j.set("ref", self.place(p));
                j.set("raw", J::s(&format!("{:?}", k)));
            }
            Rvalue::CopyForDeref(p) => {
                let mut o = J::obj();
                o.set("cp", self.place(p));
                j.set("use", o);
            }
            Rvalue::Cast(k, o, t) => {
                let ks = match k {
                    CastKind::IntToInt => "IntToInt".to_string(),
                    CastKind::PointerCoercion(pc, _) => format!("Ptr:{:?}", pc),
                    other => format!("{:?}", other),
                };
                j.set("cast", J::s(&ks));
                j.set("op", self.operand(o, body, owner));
                j.set("ty", J::s(&self.ty_s(*t)));
                let from = o.ty(&body.local_decls, tcx);
                j.set("from", J::s(&self.ty_s(from)));
            }
            Rvalue::BinaryOp(op, b) => {
                let (a, c) = &**b;
                j.set("bin", J::s(&format!("{:?}", op)));
                j.set("a", self.operand(a, body, owner));
                j.set("b", self.operand(c, body, owner));
                let t = a.ty(&body.local_decls, tcx);
                j.set("ty", J::s(&format!("{}", t)));
            }
            Rvalue::UnaryOp(op, a) => {
                j.set("un", J::s(&format!("{:?}", op)));
                j.set("a", self.operand(a, body, owner));
            }
            Rvalue::Discriminant(p) => j.set("discr", self.place(p)),
            Rvalue::Aggregate(k, ops) => {
                let mut a = J::obj();
                match &**k {
                    AggregateKind::Array(t) => a.set("array", J::s(&self.ty_s(*t))),
                    AggregateKind::Tuple => a.set("tuple", J::Bool(true)),
                    AggregateKind::Adt(did, vi, args, _, active) => {
                        a.set("adt", J::s(&self.def_path(*did)));
                        let adt = tcx.adt_def(*did);
                        let v = adt.variant(*vi);
                        a.set("variant", J::s(v.name.as_str()));
                        a.set("vidx", J::n(vi.index() as i128));
                        let mut names = Vec::new();
                        if let Some(f) = active {
                            names.push(J::s(v.fields[*f].name.as_str()));
                        } else {
                            for f in v.fields.iter() {
                                names.push(J::s(f.name.as_str()));
                            }
                        }
                        a.set("fields", J::Arr(names));
                        let mut av = Vec::new();
                        for ga in args.iter() {
                            if let Some(t) = ga.as_type() {
                                av.push(J::s(&self.ty_s(t)));
                            }
                        }
                        a.set("args", J::Arr(av));
                    }
                    AggregateKind::Closure(did, _) => a.set("closure", J::s(&self.def_path(*did))),
                    AggregateKind::Coroutine(did, _) => a.set("coroutine", J::s(&self.def_path(*did))),
                    AggregateKind::CoroutineClosure(did, _) => {
                        a.set("coroutine_closure", J::s(&self.def_path(*did)))
                    }
                    AggregateKind::RawPtr(..) => a.set("rawptr", J::Bool(true)),
                }
                j.set("agg", a);
                let mut ov = Vec::new();
                for o in ops.iter() {
                    ov.push(self.operand(o, body, owner));
                }
                j.set("ops", J::Arr(ov));
            }
            Rvalue::ThreadLocalRef(d) => j.set("tls", J::s(&self.def_path(*d))),
            other => j.set("other", J::s(&format!("{:?}", std::mem::discriminant(other)))),
        }
        j
    }

    fn adt(&mut self, did: DefId) -> J {
        let tcx = self.tcx;
        let adt = tcx.adt_def(did);
        let mut j = J::obj();
        j.set("kind", J::s(if adt.is_enum() { "enum" } else if adt.is_union() { "union" } else { "struct" }));
        let r = adt.repr();
        let mut rj = J::obj();
        rj.set("c", J::Bool(r.c()));
        rj.set("packed", J::Bool(r.packed()));
        rj.set("transparent", J::Bool(r.transparent()));
        rj.set("pack", r.pack.map(|a| J::n(a.bytes() as i128)).unwrap_or(J::Null));
        rj.set("int", r.int.map(|i| J::s(&format!("{:?}", i))).unwrap_or(J::Null));
        j.set("repr", rj);
        let generics = tcx.generics_of(did);
        let mut gv = Vec::new();
        for p in generics.own_params.iter() {
            gv.push(J::s(p.name.as_str()));
        }
        j.set("generics", J::Arr(gv));
        j.set("span", self.span(tcx.def_span(did)));
        let mut variants = Vec::new();
        for (vi, v) in adt.variants().iter_enumerated() {
            let mut vj = J::obj();
            vj.set("name", J::s(v.name.as_str()));
            if adt.is_enum() {
                let d = adt.discriminant_for_variant(tcx, vi);
                vj.set("discr", J::s(&format!("{}", d.val)));
            }
            let mut fields = Vec::new();
            for f in v.fields.iter() {
                let mut fj = J::obj();
                fj.set("name", J::s(f.name.as_str()));
                let t = tcx.type_of(f.did).instantiate_identity().skip_norm_wip();
                fj.set("ty", J::s(&self.ty_s(t)));
                fj.set("vis", J::s(&match f.vis {
                    ty::Visibility::Public => "pub".to_string(),
                    ty::Visibility::Restricted(d) => {
                        if d.is_crate_root() { "crate".to_string() } else { format!("in:{}", self.def_path(d)) }
                    }
                }));
                fields.push(fj);
            }
            vj.set("fields", J::Arr(fields));
            variants.push(vj);
        }
        j.set("variants", J::Arr(variants));
        if generics.own_params.is_empty() && generics.parent.is_none() {
            let t = tcx.type_of(did).instantiate_identity().skip_norm_wip();
            self.note_ty(t);
        }
        j
    }

    fn layout(&mut self, ty: Ty<'tcx>) -> Option<J> {
        let tcx = self.tcx;
        let res = std::panic::catch_unwind(std::panic::AssertUnwindSafe(|| {
            tcx.layout_of(TypingEnv::fully_monomorphized().as_query_input(ty)).ok()
        }))
        .ok()
        .flatten()?;
        let l = res.layout;
        let mut j = J::obj();
        j.set("size", J::n(l.size().bytes() as i128));
        j.set("align", J::n(l.align().abi.bytes() as i128));
        if let ty::Adt(def, _) = ty.kind() {
            j.set("adt", J::s(&self.def_path(def.did())));
            if def.is_struct() {
                let mut offs = Vec::new();
                let n = l.fields().count();
                for i in 0..n {
                    offs.push(J::n(l.fields().offset(i).bytes() as i128));
                }
                j.set("offsets", J::Arr(offs));
                let v = def.non_enum_variant();
                let mut ftys = Vec::new();
                if let ty::Adt(_, args) = ty.kind() {
                    for f in v.fields.iter() {
                        let ft = f.ty(tcx, args);
                        let mut fj = J::obj();
                        fj.set("name", J::s(f.name.as_str()));
                        fj.set("ty", J::s(&format!("{}", ft)));
                        let fl = std::panic::catch_unwind(std::panic::AssertUnwindSafe(|| {
                            tcx.layout_of(TypingEnv::fully_monomorphized().as_query_input(ft)).ok()
                        }))
                        .ok()
                        .flatten();
                        if let Some(fl) = fl {
                            fj.set("size", J::n(fl.layout.size().bytes() as i128));
                        }
                        ftys.push(fj);
                    }
                }
                j.set("fields", J::Arr(ftys));
            }
        }
        Some(j)
    }

    fn konst(&mut self, did: DefId) -> Option<J> {
        let tcx = self.tcx;
        let generics = tcx.generics_of(did);
        if !generics.own_params.is_empty() || generics.parent_count > 0 {
            return None;
        }
        let ty = tcx.type_of(did).instantiate_identity().skip_norm_wip();
        let mut j = J::obj();
        j.set("ty", J::s(&self.ty_s(ty)));
        if matches!(tcx.def_kind(did), DefKind::Static { .. }) {
            j.set("static", J::Bool(true));
            return Some(j);
        }
        let v = std::panic::catch_unwind(std::panic::AssertUnwindSafe(|| tcx.const_eval_poly(did).ok()))
            .ok()
            .flatten();
        if let Some(v) = v {
            self.const_value(&mut j, v, ty);
        }
        Some(j)
    }

    fn imp(&mut self, did: DefId) -> J {
        let tcx = self.tcx;
        let mut j = J::obj();
        let st = tcx.type_of(did).instantiate_identity().skip_norm_wip();
        j.set("self_ty", J::s(&format!("{}", st)));
        if let Some(tr) = tcx.impl_opt_trait_ref(did) {
            let tr = tr.instantiate_identity().skip_norm_wip();
            j.set("trait", J::s(&format!("{}", tr.print_only_trait_path())));
        } else {
            j.set("trait", J::Null);
        }
        let mut items = Vec::new();
        for it in tcx.associated_items(did).in_definition_order() {
            items.push(J::s(&self.def_path(it.def_id)));
        }
        j.set("items", J::Arr(items));
        j
    }
}

fn is_slice_ref(ty: Ty<'_>) -> bool {
    match ty.kind() {
        ty::Ref(_, inner, _) => matches!(inner.kind(), ty::Slice(_) | ty::Str),
        _ => false,
    }
}

fn hex(b: &[u8]) -> String {
    let mut s = String::with_capacity(b.len() * 2);
    for x in b {
        let _ = write!(s, "{:02x}", x);
    }
    s
}

#[allow(dead_code)]
fn _unused(_: BTreeSet<u8>) {}
