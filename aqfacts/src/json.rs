// Minimal JSON value + serialiser (the driver has no Cargo dependencies).
use std::fmt::Write as _;

pub enum J {
    Null,
    Bool(bool),
    Num(i128),
    Str(String),
    Arr(Vec<J>),
    Obj(Vec<(String, J)>),
}

impl J {
    pub fn obj() -> J {
        J::Obj(Vec::new())
    }
    pub fn s(s: &str) -> J {
        J::Str(s.to_string())
    }
    pub fn n(n: i128) -> J {
        J::Num(n)
    }
    pub fn set(&mut self, k: &str, v: J) {
        if let J::Obj(o) = self {
            o.push((k.to_string(), v));
        }
    }
    pub fn to_string(&self) -> String {
        let mut s = String::new();
        self.write(&mut s);
        s
    }
    fn write(&self, out: &mut String) {
        match self {
            J::Null => out.push_str("null"),
            J::Bool(b) => out.push_str(if *b { "true" } else { "false" }),
            J::Num(n) => {
                let _ = write!(out, "{}", n);
            }
            J::Str(s) => esc(s, out),
            J::Arr(a) => {
                out.push('[');
                for (i, x) in a.iter().enumerate() {
                    if i > 0 {
                        out.push(',');
                    }
                    x.write(out);
                }
                out.push(']');
            }
            J::Obj(o) => {
                out.push('{');
                for (i, (k, v)) in o.iter().enumerate() {
                    if i > 0 {
                        out.push(',');
                    }
                    esc(k, out);
                    out.push(':');
                    v.write(out);
                }
                out.push('}');
            }
        }
    }
}

fn esc(s: &str, out: &mut String) {
    out.push('"');
    for c in s.chars() {
        match c {
            '"' => out.push_str("\\\""),
            '\\' => out.push_str("\\\\"),
            '\n' => out.push_str("\\n"),
            '\r' => out.push_str("\\r"),
            '\t' => out.push_str("\\t"),
            c if (c as u32) < 0x20 => {
                let _ = write!(out, "\\u{:04x}", c as u32);
            }
            c => out.push(c),
        }
    }
    out.push('"');
}
