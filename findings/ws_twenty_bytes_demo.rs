// Demonstration for finding D3 (property C15). Append inside `mod tests` of crates/ws_protocol/src/common.rs
// and run `cargo test -p aquatic_ws_protocol --offline overlong`.
    #[test]
    fn overlong_identifier_is_rejected() {
        let twenty = format!("\"{}\"", "a".repeat(20));
        let twenty_one = format!("\"{}\"", "a".repeat(21));
        assert!(::serde_json::from_str::<InfoHash>(&twenty).is_ok());
        assert!(
            ::serde_json::from_str::<InfoHash>(&twenty_one).is_err(),
            "a 21 character identifier must not be accepted (it was truncated to its first 20 characters)"
        );
    }
