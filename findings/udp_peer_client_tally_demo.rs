// Demonstration for finding D7 (property C20). Append inside `mod tests` of crates/udp/src/swarm.rs and run
// `cargo test -p aquatic_udp --offline --lib tally`.
    fn demo_request(peer: u8, event: AnnounceEvent) -> AnnounceRequest {
        use std::num::NonZeroU16;
        AnnounceRequest {
            connection_id: ConnectionId::new(0),
            action_placeholder: Default::default(),
            transaction_id: TransactionId::new(0),
            info_hash: InfoHash([1; 20]),
            peer_id: PeerId([peer; 20]),
            bytes_downloaded: NumberOfBytes::new(0),
            bytes_uploaded: NumberOfBytes::new(0),
            bytes_left: NumberOfBytes::new(1),
            event: event.into(),
            ip_address: Ipv4AddrBytes([0; 4]),
            key: PeerKey::new(0),
            peers_wanted: NumberOfPeers::new(0),
            port: Port::new(NonZeroU16::new(6881).unwrap()),
        }
    }

    /// Replays what the statistics worker does with the messages
    fn demo_tally(receiver: &crossbeam_channel::Receiver<StatisticsMessage>) -> std::collections::BTreeMap<[u8; 20], i64> {
        let mut tally = std::collections::BTreeMap::new();
        for m in receiver.try_iter() {
            match m {
                StatisticsMessage::PeerAdded(id) => *tally.entry(id.0).or_insert(0) += 1,
                StatisticsMessage::PeerRemoved(id) => *tally.entry(id.0).or_insert(0) -= 1,
                _ => (),
            }
        }
        tally.retain(|_, v| *v != 0);
        tally
    }

    #[test]
    fn tally_follows_peer_id_changes() {
        use rand::SeedableRng;
        let mut config = Config::default();
        config.statistics.peer_clients = true;
        let (sender, receiver) = crossbeam_channel::unbounded();
        let mut rng = SmallRng::seed_from_u64(0);
        let valid_until = ValidUntil::new(aquatic_common::ServerStartInstant::new(), 100).unwrap();
        let mut map: PeerMap<Ipv4AddrBytes> = Default::default();
        let ip = Ipv4AddrBytes([10, 0, 0, 1]);

        // same ip:port, first as peer id A, then as peer id B: one stored peer, carrying id B
        map.announce(&config, &sender, &mut rng, &demo_request(b'A', AnnounceEvent::Started), ip, valid_until);
        map.announce(&config, &sender, &mut rng, &demo_request(b'B', AnnounceEvent::None), ip, valid_until);
        let tally = demo_tally(&receiver);
        assert_eq!(tally.get(&[b'B'; 20]), Some(&1), "stored peer carries id B: {:?}", tally);
        assert_eq!(tally.get(&[b'A'; 20]), None, "no stored peer carries id A any more: {:?}", tally);

        // the peer stops, announcing with yet another id: nothing is stored
        map.announce(&config, &sender, &mut rng, &demo_request(b'C', AnnounceEvent::Stopped), ip, valid_until);
        let mut all = tally;
        for (k, v) in demo_tally(&receiver) { *all.entry(k).or_insert(0) += v; }
        all.retain(|_, v| *v != 0);
        assert!(map.is_empty());
        assert!(all.is_empty(), "no peer is stored, so every tally must be zero: {:?}", all);
    }
