// Demonstration for finding D12 (property C18). Save as crates/udp/tests/validation_overflow.rs and run
// `cargo test -p aquatic_udp --test validation_overflow --offline`.
// The pinned test profile inherits the release profile (overflow checks off). Before the repair the start-up validation
// computed `4 + 16 + max_response_peers.saturating_mul(18)`: for a huge limit the product saturates to usize::MAX and the
// additions wrap to 19, so the configuration was ACCEPTED although no reply with that many peers fits the send buffer.
use aquatic_udp::config::Config;
use aquatic_udp::workers::socket::validate_response_sizes;

#[test]
fn huge_limits_are_refused() {
    for limit in [usize::MAX, usize::MAX / 2, usize::MAX / 18 + 1, 1 << 40, 455] {
        let mut config = Config::default();
        config.protocol.max_response_peers = limit;
        assert!(
            validate_response_sizes(&config).is_err(),
            "max_response_peers = {} was accepted",
            limit
        );
    }

    let mut config = Config::default();
    config.protocol.max_response_peers = 454;
    assert!(validate_response_sizes(&config).is_ok());
}
