// Demonstration for finding D6 (property C18). Append inside `mod tests` of crates/http_protocol/src/response.rs and run
// `cargo test -p aquatic_http_protocol --offline scrape_reply_size`.
// aquatic_http (before the fix) wrote the body into response_buffer[45..4096] and required position + 2 <= 4096,
// i.e. a body of at most 4049 bytes; `impl Write for &mut [u8]` silently truncates, so a larger body ends in
// ConnectionError::ResponseBufferFull and the connection is closed without a reply.
    #[test]
    fn scrape_reply_size_for_58_hashes_exceeds_old_buffer() {
        let mut files = BTreeMap::new();
        for i in 0..58u8 {
            let mut h = [b'a'; 20];
            h[0] = b'A' + (i % 26);
            h[1] = b'a' + (i / 26);
            files.insert(InfoHash(h), ScrapeStatistics { complete: 1, incomplete: 2, downloaded: 0 });
        }
        // the request: "GET /scrape?" + 58 * "info_hash=<20 chars>&" fits in the 2048 byte request buffer
        assert!(12 + 58 * 31 + 13 <= 2048);
        let mut body = Vec::new();
        let n = ScrapeResponse { files }.write_bytes(&mut body).unwrap();
        assert_eq!(n, 11 + 58 * 70);
        assert!(n > 4096 - 45 - 2, "body of {} bytes does not fit the old 4096 byte response buffer", n);
        assert!(n <= 8192 - 45 - 2);
    }
