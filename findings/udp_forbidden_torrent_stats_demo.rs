// Demonstration for finding D8 (property C20). Append inside `mod tests` of crates/udp/src/swarm.rs and run
// `cargo test -p aquatic_udp --offline --lib forbidden_torrent`.
// Before the repair: the cleaning pass that drops a torrent forbidden by the reloaded access list still reports its
// peers in the peer total, writes it to the scrape export, and sends no PeerRemoved for its peers (the per-client
// tallies stay too high for ever). After the repair all three follow what is stored.
    #[test]
    fn forbidden_torrent_leaves_totals_tallies_and_export() {
        use std::net::{Ipv4Addr, SocketAddr, SocketAddrV4};
        use std::sync::atomic::Ordering;

        use aquatic_common::access_list::{AccessList, AccessListMode};
        use rand::SeedableRng;

        fn request(peer: u8, info_hash: InfoHash) -> (AnnounceRequest, CanonicalSocketAddr) {
            let request = AnnounceRequest {
                connection_id: ConnectionId::new(0),
                action_placeholder: Default::default(),
                transaction_id: TransactionId::new(0),
                info_hash,
                peer_id: PeerId([peer; 20]),
                bytes_downloaded: NumberOfBytes::new(0),
                bytes_uploaded: NumberOfBytes::new(0),
                bytes_left: NumberOfBytes::new(1),
                event: AnnounceEvent::Started.into(),
                ip_address: Ipv4AddrBytes([0; 4]),
                key: PeerKey::new(0),
                peers_wanted: NumberOfPeers::new(0),
                port: Port::new((1000 + peer as u16).try_into().unwrap()),
            };
            let src = CanonicalSocketAddr::new(SocketAddr::V4(SocketAddrV4::new(
                Ipv4Addr::new(127, 0, 0, peer),
                1000 + peer as u16,
            )));

            (request, src)
        }

        let export_dir = std::env::temp_dir().join(format!("aquatic-d8-demo-{}", std::process::id()));
        std::fs::create_dir_all(&export_dir).unwrap();

        let mut config = Config::default();
        config.access_list.mode = AccessListMode::Deny;
        config.statistics.peer_clients = true;
        config.statistics.write_html_to_file = true; // statistics.active()
        config.scrape_exports.enable_scrape_exports = true;
        config.scrape_exports.path = export_dir.join("export.txt");

        let state = State::default();
        let statistics = Statistics::new(&config);
        let (statistics_sender, statistics_receiver) = crossbeam_channel::unbounded();
        let mut rng = SmallRng::seed_from_u64(0);
        let torrent_maps = TorrentMaps::default();
        let valid_until = ValidUntil::new_raw(SecondsSinceServerStart::new_raw(1000));

        let forbidden_later = InfoHash([1; 20]);
        let allowed = InfoHash([2; 20]);

        // Three peers (large peer map) in the torrent that will be forbidden, one in another torrent
        for peer in 1..=3u8 {
            let (r, src) = request(peer, forbidden_later);
            torrent_maps.announce(&config, &statistics_sender, &mut rng, &r, src, valid_until);
        }
        let (r, src) = request(4, allowed);
        torrent_maps.announce(&config, &statistics_sender, &mut rng, &r, src, valid_until);

        // Operator reloads the access list: the first torrent is now denied
        let mut list = AccessList::default();
        list.insert_from_line(&"01".repeat(20)).unwrap();
        state.access_list.store(Arc::new(list));

        torrent_maps.clean_and_update_statistics(
            &config,
            &statistics.swarm,
            &statistics_sender,
            &state.access_list,
            SecondsSinceServerStart::new_raw(1),
            true,
        );

        // What is stored now: one torrent with one peer
        assert_eq!(statistics.swarm.ipv4.torrents.load(Ordering::Relaxed), 1);
        assert_eq!(
            statistics.swarm.ipv4.peers.load(Ordering::Relaxed),
            1,
            "peer total must equal the peers actually stored after the pass"
        );

        // Per-client tallies, as the statistics worker computes them
        let mut tally = std::collections::BTreeMap::new();
        for m in statistics_receiver.try_iter() {
            match m {
                StatisticsMessage::PeerAdded(id) => *tally.entry(id.0).or_insert(0i64) += 1,
                StatisticsMessage::PeerRemoved(id) => *tally.entry(id.0).or_insert(0i64) -= 1,
                _ => (),
            }
        }
        tally.retain(|_, v| *v != 0);
        assert_eq!(
            tally.into_iter().collect::<Vec<_>>(),
            vec![([4u8; 20], 1i64)],
            "tallies must count exactly the stored peers"
        );

        let export = std::fs::read_to_string(&config.scrape_exports.path).unwrap();
        std::fs::remove_dir_all(&export_dir).ok();
        assert_eq!(
            export.lines().count(),
            1,
            "export must list exactly the torrents that have stored peers: {:?}",
            export
        );
    }
