// Demonstration for findings D1 and D2 (property C08/C17). Append inside `mod tests` of
// crates/ws/src/workers/swarm/storage.rs and run `cargo test -p aquatic_ws --offline ownership`.
    fn demo_meta(consumer: u8, connection_id: ConnectionId) -> InMessageMeta {
        InMessageMeta {
            out_message_consumer_id: ConsumerId(consumer),
            connection_id,
            ip_version: IpVersion::V4,
            pending_scrape_id: None,
        }
    }

    fn demo_announce(event: AnnounceEvent, peer: u8) -> AnnounceRequest {
        AnnounceRequest {
            action: AnnounceAction::Announce,
            info_hash: InfoHash([7; 20]),
            peer_id: PeerId([peer; 20]),
            bytes_left: Some(1),
            event: Some(event),
            offers: None,
            answer: None,
            answer_to_peer_id: None,
            answer_offer_id: None,
            numwant: None,
        }
    }

    fn demo_stored(maps: &mut TorrentMaps) -> usize {
        maps.ipv4
            .torrents
            .get(&InfoHash([7; 20]))
            .map(|t| t.peers.len())
            .unwrap_or(0)
    }

    /// D1: two socket workers hand out the same slot-map key for their first connection.
    #[test]
    fn ownership_cross_worker_same_slot_key() {
        let config = Config::default();
        let mut rng: SmallRng = make_rng();
        let start = ServerStartInstant::new();
        let mut maps = TorrentMaps::new(0);
        let mut out = Vec::new();

        let mut worker_a = slotmap::DenseSlotMap::<ConnectionId, ()>::with_key();
        let mut worker_b = slotmap::DenseSlotMap::<ConnectionId, ()>::with_key();
        let conn_a = worker_a.insert(());
        let conn_b = worker_b.insert(());
        assert_eq!(conn_a, conn_b); // distinct connections, equal keys

        maps.handle_announce_request(&config, &mut rng, &mut out, start, demo_meta(0, conn_a), demo_announce(AnnounceEvent::Started, 1));
        assert_eq!(demo_stored(&mut maps), 1);
        let replies_before = out.len();

        // another connection (other socket worker) uses the same peer id and stops it
        maps.handle_announce_request(&config, &mut rng, &mut out, start, demo_meta(1, conn_b), demo_announce(AnnounceEvent::Stopped, 1));
        assert_eq!(out.len(), replies_before, "foreign announce must be ignored and get no reply");
        assert_eq!(demo_stored(&mut maps), 1, "foreign announce must not remove the entry");
    }

    /// D2: an ignored announce is still recorded by the sending connection; its close removes the owner's entry.
    #[test]
    fn ownership_close_of_other_connection() {
        let config = Config::default();
        let mut rng: SmallRng = make_rng();
        let start = ServerStartInstant::new();
        let mut maps = TorrentMaps::new(0);
        let mut out = Vec::new();

        let mut worker = slotmap::DenseSlotMap::<ConnectionId, ()>::with_key();
        let conn_a = worker.insert(());
        let conn_b = worker.insert(());
        assert_ne!(conn_a, conn_b);

        maps.handle_announce_request(&config, &mut rng, &mut out, start, demo_meta(0, conn_a), demo_announce(AnnounceEvent::Started, 1));
        // B announces with A's peer id: ignored by the swarm worker ...
        maps.handle_announce_request(&config, &mut rng, &mut out, start, demo_meta(0, conn_b), demo_announce(AnnounceEvent::Started, 1));
        assert_eq!(demo_stored(&mut maps), 1);
        // ... but B's socket-side bookkeeping recorded (info_hash, peer_id), so when B closes the swarm worker receives:
        DEMO_CLOSE!(maps, conn_b);
        assert_eq!(demo_stored(&mut maps), 1, "closing B must not remove A's entry");
    }
