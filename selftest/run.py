#!/usr/bin/env python3
"""Self-test of the checker: apply each mutant (a textual edit of /repo), run the property's
check, require exit 1 with a VIOLATION whose obligation key matches, then restore /repo.

usage: run.py [--only REGEX] [--with-tests] [--prop Cxx]
Never part of quick/thorough. /repo is always restored with `git checkout -- .`.
"""
import argparse, json, os, re, subprocess, sys, time
HERE = os.path.dirname(os.path.abspath(__file__))
sys.path.insert(0, HERE)
REPO = "/repo"
CHECK = os.path.join(os.path.dirname(HERE), "aqv", "check.py")


def sh(cmd, **kw):
    return subprocess.run(cmd, stdout=subprocess.PIPE, stderr=subprocess.STDOUT, text=True, **kw)


def clean():
    sh(["git", "-C", REPO, "checkout", "--", "."])


def main():
    ap = argparse.ArgumentParser()
    ap.add_argument("--only")
    ap.add_argument("--prop")
    ap.add_argument("--with-tests", action="store_true")
    ap.add_argument("--show", action="store_true")
    ap.add_argument("--tier", default="quick", choices=["quick", "thorough"])
    a = ap.parse_args()
    from mutants import MUTANTS
    st = sh(["git", "-C", REPO, "status", "--porcelain"]).stdout.strip()
    if st:
        print("refusing: /repo has local changes:\n" + st)
        return 2
    res = []
    for m in MUTANTS:
        if a.only and not re.search(a.only, m["id"]):
            continue
        if a.prop and a.prop not in m["props"]:
            continue
        t0 = time.time()
        try:
            for (f, old, new) in m["edits"]:
                p = os.path.join(REPO, f)
                s = open(p).read()
                n = s.count(old)
                if n != 1:
                    raise RuntimeError("%s: edit anchor occurs %d times in %s: %r" % (m["id"], n, f, old[:60]))
                open(p, "w").write(s.replace(old, new))
            status = {}
            for prop in m["props"]:
                r = sh([sys.executable, CHECK, "--property", prop, "--tier", a.tier],
                       env=dict(os.environ, AQV_EVIDENCE_DIR="/verif/.cache/selftest_evidence", AQV_REPLAY_DIR="/verif/.cache/selftest_replay"))
                keys = re.findall(r"^--- \S+ (.*)$", r.stdout, re.M)
                viol = "VIOLATION property=%s" % prop in r.stdout
                want = m.get("expect", {}).get(prop)
                hit = [k for k in keys if want is None or re.search(want, k)]
                if m.get("benign"):
                    status[prop] = "caught: silent (benign edit)" if r.returncode == 0 and not viol else "FALSE-ALARM: " + ", ".join(keys[:4])
                elif r.returncode == 2:
                    status[prop] = "BUILD-ERROR"
                    print(r.stdout[-1500:])
                elif r.returncode == 1 and viol and hit:
                    status[prop] = "caught: " + ", ".join(hit[:3])
                elif r.returncode == 1 and viol:
                    status[prop] = "caught-by-other-key: " + ", ".join(keys[:4])
                else:
                    status[prop] = "MISSED"
                if a.show:
                    print(r.stdout[-3000:])
            tests = None
            if a.with_tests:
                r = sh(["cargo", "test", "--workspace", "--no-fail-fast", "--offline"], cwd=REPO,
                       env=dict(os.environ, CARGO_NET_OFFLINE="true"))
                tests = "tests-pass" if r.returncode == 0 else "TESTS-FAIL"
            res.append((m["id"], status, tests))
            print("%-40s %s %s (%.0fs)" % (m["id"], status, tests or "", time.time() - t0), flush=True)
        except Exception as e:
            print("%-40s ERROR %s" % (m["id"], e))
            res.append((m["id"], {"error": str(e)}, None))
        finally:
            clean()
    bad = [r for r in res if any(not str(v).startswith("caught:") for v in r[1].values())]
    print("%d mutants, %d not caught by the expected key" % (len(res), len(bad)))
    return 1 if bad else 0


if __name__ == "__main__":
    try:
        sys.exit(main())
    finally:
        clean()
