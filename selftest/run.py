#!/usr/bin/env python3
"""Self-test of the checker: apply each mutant (a textual edit of /repo), run the property's
check, require exit 1 with a VIOLATION whose obligation key matches, then restore /repo.

usage: run.py [--only REGEX] [--with-tests] [--prop Cxx] [--tier quick|thorough] [--jobs N]
Never part of quick/thorough. /repo is always restored with `git checkout -- .`.
With --jobs N the mutants are spread over N scratch worktrees of /repo's HEAD under /tmp (AQV_REPO points the checker at
them; each has its own cargo target directory under /verif/.cache/target); /repo itself is not touched and the
worktrees and their build output are removed at the end.
"""
import argparse, json, os, re, subprocess, sys, time
HERE = os.path.dirname(os.path.abspath(__file__))
sys.path.insert(0, HERE)
REPO = os.environ.get("AQV_REPO", "/repo")
CHECK = os.path.join(os.path.dirname(HERE), "aqv", "check.py")


def sh(cmd, **kw):
    return subprocess.run(cmd, stdout=subprocess.PIPE, stderr=subprocess.STDOUT, text=True, **kw)


def clean():
    sh(["git", "-C", REPO, "checkout", "--", "."])


def main():
    ap = argparse.ArgumentParser()
    ap.add_argument("--only")
    ap.add_argument("--prop")
    ap.add_argument("--with-tests", action="store_true")
    ap.add_argument("--show", action="store_true")
    ap.add_argument("--tier", default="quick", choices=["quick", "thorough"])
    ap.add_argument("--jobs", type=int, default=1)
    ap.add_argument("--ids", help="comma separated mutant ids (used by --jobs workers)")
    a = ap.parse_args()
    from mutants import MUTANTS
    if a.jobs > 1:
        return parallel(a, MUTANTS)
    if a.ids:
        ids = set(a.ids.split(","))
        MUTANTS = [m for m in MUTANTS if m["id"] in ids]
    st = sh(["git", "-C", REPO, "status", "--porcelain"]).stdout.strip()
    if st:
        print("refusing: /repo has local changes:\n" + st)
        return 2
    res = []
    for m in MUTANTS:
        if a.only and not re.search(a.only, m["id"]):
            continue
        if a.prop and a.prop not in m["props"]:
            continue
        t0 = time.time()
        try:
            for (f, old, new) in m["edits"]:
                p = os.path.join(REPO, f)
                s = open(p).read()
                n = s.count(old)
                if n != 1:
                    raise RuntimeError("%s: edit anchor occurs %d times in %s: %r" % (m["id"], n, f, old[:60]))
                open(p, "w").write(s.replace(old, new))
            status = {}
            for prop in m["props"]:
                r = sh([sys.executable, CHECK, "--property", prop, "--tier", a.tier],
                       env=dict(os.environ, AQV_EVIDENCE_DIR="/verif/.cache/selftest_evidence", AQV_REPLAY_DIR="/verif/.cache/selftest_replay"))
                keys = re.findall(r"^--- \S+ (.*)$", r.stdout, re.M)
                viol = "VIOLATION property=%s" % prop in r.stdout
                want = m.get("expect", {}).get(prop)
                hit = [k for k in keys if want is None or re.search(want, k)]
                if m.get("benign"):
                    status[prop] = "caught: silent (benign edit)" if r.returncode == 0 and not viol else "FALSE-ALARM: " + ", ".join(keys[:4])
                elif r.returncode == 2:
                    status[prop] = "BUILD-ERROR"
                    print(r.stdout[-1500:])
                elif r.returncode == 1 and viol and hit:
                    status[prop] = "caught: " + ", ".join(hit[:3])
                elif r.returncode == 1 and viol:
                    status[prop] = "caught-by-other-key: " + ", ".join(keys[:4])
                else:
                    status[prop] = "MISSED"
                if a.show:
                    print(r.stdout[-3000:])
            tests = None
            if a.with_tests:
                r = sh(["cargo", "test", "--workspace", "--no-fail-fast", "--offline"], cwd=REPO,
                       env=dict(os.environ, CARGO_NET_OFFLINE="true"))
                tests = "tests-pass" if r.returncode == 0 else "TESTS-FAIL"
            res.append((m["id"], status, tests))
            print("%-40s %s %s (%.0fs)" % (m["id"], status, tests or "", time.time() - t0), flush=True)
        except Exception as e:
            print("%-40s ERROR %s" % (m["id"], e))
            res.append((m["id"], {"error": str(e)}, None))
        finally:
            clean()
    bad = [r for r in res if any(not str(v).startswith("caught:") for v in r[1].values())]
    print("%d mutants, %d not caught by the expected key" % (len(res), len(bad)))
    return 1 if bad else 0


def parallel(a, mutants):
    import hashlib, shutil
    sel = [m for m in mutants if (not a.only or re.search(a.only, m["id"])) and (not a.prop or a.prop in m["props"])]
    n = min(a.jobs, len(sel)) or 1
    dirs = []
    procs = []
    try:
        for i in range(n):
            d = "/tmp/aqv_st_%d" % i
            sh(["git", "-C", "/repo", "worktree", "remove", "--force", d])
            r = sh(["git", "-C", "/repo", "worktree", "add", "--detach", d, "HEAD"])
            if r.returncode != 0:
                print(r.stdout)
                return 2
            dirs.append(d)
            # warm start: dependencies compiled for /repo are reusable (registry crates do not depend on the workspace path)
            suffix = "-" + hashlib.sha256(d.encode()).hexdigest()[:8]
            for cs in (["default+uring", "nometrics+uring"] if a.tier == "thorough" else ["default+uring"]):
                src, dst = "/verif/.cache/target/" + cs, "/verif/.cache/target/" + cs + suffix
                if os.path.isdir(src) and not os.path.isdir(dst):
                    sh(["cp", "-a", "--reflink=auto", src, dst])
            ids = ",".join(m["id"] for m in sel[i::n])
            cmd = [sys.executable, os.path.abspath(__file__), "--ids", ids, "--tier", a.tier] + (["--with-tests"] if a.with_tests else [])
            procs.append(subprocess.Popen(cmd, env=dict(os.environ, AQV_REPO=d), stdout=subprocess.PIPE, stderr=subprocess.STDOUT, text=True))
        bad = 0
        total = 0
        for pr in procs:
            out = pr.communicate()[0]
            for line in out.splitlines():
                if re.match(r"^\d+ mutants, ", line):
                    m = re.match(r"^(\d+) mutants, (\d+) not caught", line)
                    total += int(m.group(1))
                    bad += int(m.group(2))
                else:
                    print(line, flush=True)
        print("%d mutants, %d not caught by the expected key" % (total, bad))
        return 1 if bad or total != len(sel) else 0
    finally:
        for d in dirs:
            sh(["git", "-C", "/repo", "worktree", "remove", "--force", d])
            suffix = "-" + hashlib.sha256(d.encode()).hexdigest()[:8]
            for cs in os.listdir("/verif/.cache/target") if os.path.isdir("/verif/.cache/target") else []:
                if cs.endswith(suffix):
                    shutil.rmtree(os.path.join("/verif/.cache/target", cs), ignore_errors=True)
            try:
                os.remove("/verif/.cache/lock" + suffix)
            except OSError:
                pass


if __name__ == "__main__":
    try:
        sys.exit(main())
    finally:
        clean()
