"""Self-test mutants: each compiles, keeps the 62 tests green (checked with --with-tests when added)
and must be reported by the named obligation key."""
UP = "crates/udp_protocol/src/"
MUTANTS = [
 dict(id="C13-swap-left-uploaded", props=["C13"], expect={"C13": r"layout#AnnounceRequest#bytes_(left|uploaded)"},
      edits=[(UP+"request.rs", "    pub bytes_left: NumberOfBytes,\n    pub bytes_uploaded: NumberOfBytes,\n    pub event: AnnounceEvent,",
              "    pub bytes_uploaded: NumberOfBytes,\n    pub bytes_left: NumberOfBytes,\n    pub event: AnnounceEvent,")]),
 dict(id="C13-stopped-4", props=["C13"], expect={"C13": r"event#Stopped"},
      edits=[(UP+"request.rs", "Stopped = 3_i32.to_be(),", "Stopped = 4_i32.to_be(),")]),
 dict(id="C13-leechers-seeders-swapped", props=["C13"], expect={"C13": r"layout#AnnounceResponseFixedData#(leechers|seeders)"},
      edits=[(UP+"response.rs", "    pub leechers: NumberOfPeers,\n    pub seeders: NumberOfPeers,\n}", "    pub seeders: NumberOfPeers,\n    pub leechers: NumberOfPeers,\n}")]),
 dict(id="C13-scrape-writer-action-3", props=["C13"], expect={"C13": r"writer#request::ScrapeRequest#stream"},
      edits=[(UP+"request.rs", "bytes.write_i32::<NetworkEndian>(2)?;\n        bytes.write_all(self.transaction_id.as_bytes())?;\n        bytes.write_all((*self.info_hashes",
              "bytes.write_i32::<NetworkEndian>(3)?;\n        bytes.write_all(self.transaction_id.as_bytes())?;\n        bytes.write_all((*self.info_hashes")]),
 dict(id="C13-announce-exact-read", props=["C13"], expect={"C13": r"parse#announce_accept"},
      edits=[(UP+"request.rs", "let (request, _rest) = AnnounceRequest::try_read_from_prefix(bytes)", "let request = AnnounceRequest::try_read_from_bytes(bytes)")]),
 dict(id="C13-scrape-no-truncate", props=["C13"], expect={"C13": r"parse#scrape_accept"},
      edits=[(UP+"request.rs", "&info_hashes[..(max_scrape_torrents as usize).min(info_hashes.len())],", "&info_hashes[..],")]),
 dict(id="C13-port0-accepted", props=["C13"], expect={"C13": r"parse#announce_port0"},
      edits=[(UP+"request.rs", "if request.port.0.get() == 0 {", "if request.port.0.get() == 0 && request.peers_wanted.0.get() == 0 {")]),
 dict(id="C13-scrape-txid-from-second-read", props=["C13"], expect={"C13": r"request#scrape#fields"},
      edits=[(UP+"request.rs", """                let _action = read_i32_ne(&mut bytes).map_err(RequestParseError::unsendable_io)?;
                let transaction_id = read_i32_ne(&mut bytes)
                    .map(TransactionId)
                    .map_err(RequestParseError::unsendable_io)?;

                let remaining_bytes""", """                let transaction_id = read_i32_ne(&mut bytes)
                    .map(TransactionId)
                    .map_err(RequestParseError::unsendable_io)?;
                let _action = read_i32_ne(&mut bytes).map_err(RequestParseError::unsendable_io)?;

                let remaining_bytes""")]),
]

CM = "crates/common/src/"
US = "crates/udp/src/"
HS = "crates/http/src/workers/swarm/"
WS = "crates/ws/src/workers/swarm/"
MUTANTS += [
 dict(id="C10-valid-ge", props=["C10"], expect={"C10": r"table#ValidUntil::valid"},
      edits=[(CM+"lib.rs", "self.0 .0 > now.0", "self.0 .0 >= now.0")]),
 dict(id="C10-udp-small-retain-negated", props=["C10"], expect={"C10": r"retain#udp::SmallPeerMap"},
      edits=[(US+"swarm.rs", "let keep = peer.valid_until.valid(now);\n\n            if keep {", "let keep = !peer.valid_until.valid(now);\n\n            if keep {")]),
 dict(id="C10-http-large-keep-seeders", props=["C10"], expect={"C10": r"retain#http::LargePeerMap"},
      edits=[(HS+"storage.rs", "let keep = peer.valid_until.valid(now);\n\n            if (!keep) & peer.is_seeder {", "let keep = peer.valid_until.valid(now) || peer.is_seeder;\n\n            if (!keep) & peer.is_seeder {")]),
 dict(id="C10-ws-seeding-arm-forgets-deadline", props=["C10"], expect={"C10": r"refresh#ws#Occupied/Seeding"},
      edits=[(WS+"storage.rs", "                    peer.seeder = true;\n                    peer.valid_until = valid_until;", "                    peer.seeder = true;")]),
 dict(id="C10-udp-refresh-uses-connection-age", props=["C10"], expect={"C10": r"refresh#udp#mio#field_sources"},
      edits=[(US+"workers/socket/mio/mod.rs", "                shared.shared_state.server_start_instant,\n                shared.config.cleaning.max_peer_age,", "                shared.shared_state.server_start_instant,\n                shared.config.cleaning.max_connection_age,")]),
 dict(id="C10-http-clean-own-clock", props=["C10"], expect={"C10": r"clock#aquatic_http|now#http"},
      edits=[(HS+"storage.rs", "if let Some(now) = server_start_instant.seconds_elapsed() {\n            self.ipv4.clean(config, &mut access_list_cache, now);", "if let Some(now) = ServerStartInstant::new().seconds_elapsed() {\n            self.ipv4.clean(config, &mut access_list_cache, now);")]),
 dict(id="C10-ws-offer-uses-peer-age", props=["C10"], expect={"C10": r"refresh#ws#offer_deadline"},
      edits=[(WS+"storage.rs", "ValidUntil::new(server_start_instant, config.cleaning.max_offer_age);", "ValidUntil::new(server_start_instant, config.cleaning.max_peer_age);")]),
 dict(id="C10-ws-expectation-retain-negated", props=["C10"], expect={"C10": r"retain#ws::TorrentData::clean_and_get_num_peers::\{closure#0\}"},
      edits=[(WS+"storage.rs", ".retain(|_, valid_until| valid_until.valid(now));", ".retain(|_, valid_until| !valid_until.valid(now));")]),
 dict(id="C10-new-with-offset-dropped", props=["C10"], expect={"C10": r"table#ValidUntil::new"},
      edits=[(CM+"lib.rs", ".map(|elapsed| Self(SecondsSinceServerStart(elapsed.0 + offset_seconds)))", ".map(|elapsed| Self(SecondsSinceServerStart(elapsed.0.max(offset_seconds))))")]),
]
