"""Self-test mutants: each compiles, keeps the 62 tests green (checked with --with-tests when added)
and must be reported by the named obligation key."""
UP = "crates/udp_protocol/src/"
MUTANTS = [
 dict(id="C13-swap-left-uploaded", props=["C13"], expect={"C13": r"layout#AnnounceRequest#bytes_(left|uploaded)"},
      edits=[(UP+"request.rs", "    pub bytes_left: NumberOfBytes,\n    pub bytes_uploaded: NumberOfBytes,\n    pub event: AnnounceEvent,",
              "    pub bytes_uploaded: NumberOfBytes,\n    pub bytes_left: NumberOfBytes,\n    pub event: AnnounceEvent,")]),
 dict(id="C13-stopped-4", props=["C13"], expect={"C13": r"event#Stopped"},
      edits=[(UP+"request.rs", "Stopped = 3_i32.to_be(),", "Stopped = 4_i32.to_be(),")]),
 dict(id="C13-leechers-seeders-swapped", props=["C13"], expect={"C13": r"layout#AnnounceResponseFixedData#(leechers|seeders)"},
      edits=[(UP+"response.rs", "    pub leechers: NumberOfPeers,\n    pub seeders: NumberOfPeers,\n}", "    pub seeders: NumberOfPeers,\n    pub leechers: NumberOfPeers,\n}")]),
 dict(id="C13-scrape-writer-action-3", props=["C13"], expect={"C13": r"writer#request::ScrapeRequest#stream"},
      edits=[(UP+"request.rs", "bytes.write_i32::<NetworkEndian>(2)?;\n        bytes.write_all(self.transaction_id.as_bytes())?;\n        bytes.write_all((*self.info_hashes",
              "bytes.write_i32::<NetworkEndian>(3)?;\n        bytes.write_all(self.transaction_id.as_bytes())?;\n        bytes.write_all((*self.info_hashes")]),
 dict(id="C13-announce-exact-read", props=["C13"], expect={"C13": r"parse#announce_accept"},
      edits=[(UP+"request.rs", "let (request, _rest) = AnnounceRequest::try_read_from_prefix(bytes)", "let request = AnnounceRequest::try_read_from_bytes(bytes)")]),
 dict(id="C13-scrape-no-truncate", props=["C13"], expect={"C13": r"parse#scrape_accept"},
      edits=[(UP+"request.rs", "&info_hashes[..(max_scrape_torrents as usize).min(info_hashes.len())],", "&info_hashes[..],")]),
 dict(id="C13-port0-accepted", props=["C13"], expect={"C13": r"parse#announce_port0"},
      edits=[(UP+"request.rs", "if request.port.0.get() == 0 {", "if request.port.0.get() == 0 && request.peers_wanted.0.get() == 0 {")]),
 dict(id="C13-scrape-txid-from-second-read", props=["C13"], expect={"C13": r"request#scrape#fields"},
      edits=[(UP+"request.rs", """                let _action = read_i32_ne(&mut bytes).map_err(RequestParseError::unsendable_io)?;
                let transaction_id = read_i32_ne(&mut bytes)
                    .map(TransactionId)
                    .map_err(RequestParseError::unsendable_io)?;

                let remaining_bytes""", """                let transaction_id = read_i32_ne(&mut bytes)
                    .map(TransactionId)
                    .map_err(RequestParseError::unsendable_io)?;
                let _action = read_i32_ne(&mut bytes).map_err(RequestParseError::unsendable_io)?;

                let remaining_bytes""")]),
]
