"""Self-test mutants: each compiles, keeps the 62 tests green (checked with --with-tests when added)
and must be reported by the named obligation key."""
UP = "crates/udp_protocol/src/"
MUTANTS = [
 dict(id="C13-swap-left-uploaded", props=["C13"], expect={"C13": r"layout#AnnounceRequest#bytes_(left|uploaded)"},
      edits=[(UP+"request.rs", "    pub bytes_left: NumberOfBytes,\n    pub bytes_uploaded: NumberOfBytes,\n    pub event: AnnounceEvent,",
              "    pub bytes_uploaded: NumberOfBytes,\n    pub bytes_left: NumberOfBytes,\n    pub event: AnnounceEvent,")]),
 dict(id="C13-stopped-4", props=["C13"], expect={"C13": r"event#Stopped"},
      edits=[(UP+"request.rs", "Stopped = 3_i32.to_be(),", "Stopped = 4_i32.to_be(),")]),
 dict(id="C13-leechers-seeders-swapped", props=["C13"], expect={"C13": r"layout#AnnounceResponseFixedData#(leechers|seeders)"},
      edits=[(UP+"response.rs", "    pub leechers: NumberOfPeers,\n    pub seeders: NumberOfPeers,\n}", "    pub seeders: NumberOfPeers,\n    pub leechers: NumberOfPeers,\n}")]),
 dict(id="C13-scrape-writer-action-3", props=["C13"], expect={"C13": r"writer#request::ScrapeRequest#stream"},
      edits=[(UP+"request.rs", "bytes.write_i32::<NetworkEndian>(2)?;\n        bytes.write_all(self.transaction_id.as_bytes())?;\n        bytes.write_all((*self.info_hashes",
              "bytes.write_i32::<NetworkEndian>(3)?;\n        bytes.write_all(self.transaction_id.as_bytes())?;\n        bytes.write_all((*self.info_hashes")]),
 dict(id="C13-announce-exact-read", props=["C13"], expect={"C13": r"parse#announce_accept"},
      edits=[(UP+"request.rs", "let (request, _rest) = AnnounceRequest::try_read_from_prefix(bytes)", "let request = AnnounceRequest::try_read_from_bytes(bytes)")]),
 dict(id="C13-scrape-no-truncate", props=["C13"], expect={"C13": r"parse#scrape_accept"},
      edits=[(UP+"request.rs", "&info_hashes[..(max_scrape_torrents as usize).min(info_hashes.len())],", "&info_hashes[..],")]),
 dict(id="C13-port0-accepted", props=["C13"], expect={"C13": r"parse#announce_port0"},
      edits=[(UP+"request.rs", "if request.port.0.get() == 0 {", "if request.port.0.get() == 0 && request.peers_wanted.0.get() == 0 {")]),
 dict(id="C13-scrape-txid-from-second-read", props=["C13"], expect={"C13": r"request#scrape#fields"},
      edits=[(UP+"request.rs", """                let _action = read_i32_ne(&mut bytes).map_err(RequestParseError::unsendable_io)?;
                let transaction_id = read_i32_ne(&mut bytes)
                    .map(TransactionId)
                    .map_err(RequestParseError::unsendable_io)?;

                let remaining_bytes""", """                let transaction_id = read_i32_ne(&mut bytes)
                    .map(TransactionId)
                    .map_err(RequestParseError::unsendable_io)?;
                let _action = read_i32_ne(&mut bytes).map_err(RequestParseError::unsendable_io)?;

                let remaining_bytes""")]),
]

CM = "crates/common/src/"
US = "crates/udp/src/"
HS = "crates/http/src/workers/swarm/"
WS = "crates/ws/src/workers/swarm/"
MUTANTS += [
 dict(id="C10-valid-ge", props=["C10"], expect={"C10": r"table#ValidUntil::valid"},
      edits=[(CM+"lib.rs", "self.0 .0 > now.0", "self.0 .0 >= now.0")]),
 dict(id="C10-udp-small-retain-negated", props=["C10"], expect={"C10": r"retain#udp::SmallPeerMap"},
      edits=[(US+"swarm.rs", "let keep = peer.valid_until.valid(now);\n\n            if keep {", "let keep = !peer.valid_until.valid(now);\n\n            if keep {")]),
 dict(id="C10-http-large-keep-seeders", props=["C10"], expect={"C10": r"retain#http::LargePeerMap"},
      edits=[(HS+"storage.rs", "let keep = peer.valid_until.valid(now);\n\n            if (!keep) & peer.is_seeder {", "let keep = peer.valid_until.valid(now) || peer.is_seeder;\n\n            if (!keep) & peer.is_seeder {")]),
 dict(id="C10-ws-seeding-arm-forgets-deadline", props=["C10"], expect={"C10": r"refresh#ws#Occupied/Seeding"},
      edits=[(WS+"storage.rs", "                    peer.seeder = true;\n                    peer.valid_until = valid_until;", "                    peer.seeder = true;")]),
 dict(id="C10-udp-refresh-uses-connection-age", props=["C10"], expect={"C10": r"refresh#udp#mio#field_sources"},
      edits=[(US+"workers/socket/mio/mod.rs", "                shared.shared_state.server_start_instant,\n                shared.config.cleaning.max_peer_age,", "                shared.shared_state.server_start_instant,\n                shared.config.cleaning.max_connection_age,")]),
 dict(id="C10-http-clean-own-clock", props=["C10"], expect={"C10": r"clock#aquatic_http|now#http"},
      edits=[(HS+"storage.rs", "if let Some(now) = server_start_instant.seconds_elapsed() {\n            self.ipv4.clean(config, &mut access_list_cache, now);", "if let Some(now) = ServerStartInstant::new().seconds_elapsed() {\n            self.ipv4.clean(config, &mut access_list_cache, now);")]),
 dict(id="C10-ws-offer-uses-peer-age", props=["C10"], expect={"C10": r"refresh#ws#offer_deadline"},
      edits=[(WS+"storage.rs", "ValidUntil::new(server_start_instant, config.cleaning.max_offer_age);", "ValidUntil::new(server_start_instant, config.cleaning.max_peer_age);")]),
 dict(id="C10-ws-expectation-retain-negated", props=["C10"], expect={"C10": r"retain#ws::TorrentData::clean_and_get_num_peers::\{closure#0\}"},
      edits=[(WS+"storage.rs", ".retain(|_, valid_until| valid_until.valid(now));", ".retain(|_, valid_until| !valid_until.valid(now));")]),
 dict(id="C10-new-with-offset-dropped", props=["C10"], expect={"C10": r"table#ValidUntil::new"},
      edits=[(CM+"lib.rs", ".map(|elapsed| Self(SecondsSinceServerStart(elapsed.0 + offset_seconds)))", ".map(|elapsed| Self(SecondsSinceServerStart(elapsed.0.max(offset_seconds))))")]),
]

VAL = US + "workers/socket/validator.rs"
MUTANTS += [
 dict(id="C05-expiry-ge", props=["C05"], expect={"C05": r"valid#table"},
      edits=[(VAL, "client_expiration_time > seconds_since_start;", "client_expiration_time >= seconds_since_start;")]),
 dict(id="C05-future-600", props=["C05"], expect={"C05": r"valid#table"},
      edits=[(VAL, "client_elapsed <= (seconds_since_start + 60);", "client_elapsed <= (seconds_since_start + 600);")]),
 dict(id="C05-add-in-u32", props=["C05"], expect={"C05": r"valid#(table|u64_arithmetic|widening)"},
      edits=[(VAL, "let client_elapsed = u64::from(u32::from_ne_bytes(elapsed));\n        let client_expiration_time = client_elapsed + self.max_connection_age;",
              "let client_elapsed = u64::from(u32::from_ne_bytes(elapsed));\n        let client_expiration_time = u64::from(u32::from_ne_bytes(elapsed).wrapping_add(self.max_connection_age as u32));")]),
 dict(id="C05-hash-without-ip", props=["C05"], expect={"C05": r"mac#V4"},
      edits=[(VAL, "IpAddr::V4(ip) => self.keyed_hasher.update(&ip.octets()),", "IpAddr::V4(_ip) => &mut self.keyed_hasher,")]),
 dict(id="C05-constant-key", props=["C05"], expect={"C05": r"key#provenance"},
      edits=[(VAL, "fill(&mut key).with_context(|| \"Couldn't get random bytes for ConnectionValidator key\")?;", "if config.cleaning.max_connection_age == 0 { fill(&mut key).with_context(|| \"Couldn't get random bytes for ConnectionValidator key\")?; }")]),
 dict(id="C05-compare-with-eq", props=["C05"], expect={"C05": r"valid#(table|no_plain_eq)"},
      edits=[(VAL, "if !constant_time_eq(hash, &self.hash(elapsed, source_addr.get().ip())) {", "if hash != &self.hash(elapsed, source_addr.get().ip())[..] {")]),
 dict(id="C05-create-hash-includes-port", props=["C05"], expect={"C05": r"create#(layout|same_address_accessor)"},
      edits=[(VAL, "let hash = self.hash(elapsed, source_addr.get().ip());\n\n        let mut connection_id_bytes", "let hash = self.hash(elapsed, source_addr.get_ipv6_mapped().ip());\n\n        let mut connection_id_bytes")]),
 dict(id="C05-validator-per-worker", props=["C05"], expect={"C05": r"key#single_instance"},
      edits=[(US + "lib.rs", "let connection_validator = connection_validator.clone();", "let connection_validator = ConnectionValidator::new(&config)?;")]),
 dict(id="C05-no-mac-check-when-recent", props=["C05"], expect={"C05": r"valid#table"},
      edits=[(VAL, "if !constant_time_eq(hash, &self.hash(elapsed, source_addr.get().ip())) {", "if u32::from_ne_bytes(elapsed) != self.seconds_since_start && !constant_time_eq(hash, &self.hash(elapsed, source_addr.get().ip())) {")]),
]

# behaviour-preserving edits: the checks must stay silent
MUTANTS += [
 dict(id="BENIGN-C05-shortcircuit-and-flipped-compare", props=["C05"], benign=True,
      edits=[(VAL, "let client_not_expired = client_expiration_time > seconds_since_start;", "let client_not_expired = seconds_since_start < client_expiration_time;"),
             (VAL, "client_not_expired & client_elapsed_not_in_far_future", "client_not_expired && client_elapsed_not_in_far_future")]),
 dict(id="BENIGN-C10-rename-and-temp", props=["C10"], benign=True,
      edits=[(HS+"storage.rs", "self.0.retain(|(_, peer)| peer.valid_until.valid(now));", "self.0.retain(|(_, p)| { let deadline = p.valid_until; deadline.valid(now) });")]),
 dict(id="BENIGN-C13-reorder-independent", props=["C13"], benign=True,
      edits=[(UP+"request.rs", "    Started = 2_i32.to_be(),\n    Stopped = 3_i32.to_be(),", "    Stopped = 3_i32.to_be(),\n    Started = 2_i32.to_be(),")]),
]

AC = CM + "access_list.rs"
MUTANTS += [
 dict(id="C11-deny-contains", props=["C11"], expect={"C11": r"table#AccessList::allows"},
      edits=[(AC, "            AccessListMode::Deny => !self.0.contains(info_hash),", "            AccessListMode::Deny => self.0.contains(info_hash),")]),
 dict(id="C11-udp-mio-gate-after-announce", props=["C11"], expect={"C11": r"gate#udp_mio#dominates"},
      edits=[(US+"workers/socket/mio/mod.rs", """                    if self
                        .access_list_cache
                        .load()
                        .allows(access_list_mode, &request.info_hash.0)
                    {
                        let response = self.shared_state.torrent_maps.announce(
                            &self.config,
                            &self.statistics_sender,
                            &mut self.rng,
                            &request,
                            src,
                            self.peer_valid_until,
                        );

                        return Some(response);""", """                    let response = self.shared_state.torrent_maps.announce(
                            &self.config,
                            &self.statistics_sender,
                            &mut self.rng,
                            &request,
                            src,
                            self.peer_valid_until,
                        );
                    if self
                        .access_list_cache
                        .load()
                        .allows(access_list_mode, &request.info_hash.0)
                    {
                        return Some(response);""")]),
 dict(id="C11-uring-gate-off-mode-only", props=["C11"], expect={"C11": r"gate#udp_uring#(dominates|arguments)"},
      edits=[(US+"workers/socket/uring/mod.rs", ".allows(access_list_mode, &request.info_hash.0)", ".allows(aquatic_common::access_list::AccessListMode::Off, &request.info_hash.0)")]),
 dict(id="C11-store-empty-before-parse", props=["C11"], expect={"C11": r"reload#store_ok_payload"},
      edits=[(AC, "        self.store(Arc::new(AccessList::create_from_path(&config.path)?));", "        self.store(Arc::new(AccessList::default()));\n        self.store(Arc::new(AccessList::create_from_path(&config.path)?));")]),
 dict(id="C11-bad-line-ignored", props=["C11"], expect={"C11": r"reload#(parse_propagates|no_swallow)"},
      edits=[(AC, "                .with_context(|| format!(\"Invalid line in access list: {}\", line))?;", "                .with_context(|| format!(\"Invalid line in access list: {}\", line)).ok();")]),
 dict(id="C11-ws-clean-without-allows", props=["C11"], expect={"C11": r"clean#ws#"},
      edits=[(WS+"storage.rs", """            if !access_list_cache
                .load()
                .allows(config.access_list.mode, &info_hash.0)
            {
                return false;
            }

            let num_peers = torrent_data.clean_and_get_num_peers(now);""", """            let _ = (&access_list_cache, info_hash);

            let num_peers = torrent_data.clean_and_get_num_peers(now);""")]),
 dict(id="C11-http-clean-allows-after-peers", props=["C11"], expect={"C11": r"clean#http#(first_decision|forbidden_dropped)"},
      edits=[(HS+"storage.rs", """            if !access_list_cache
                .load()
                .allows(config.access_list.mode, &info_hash.0)
            {
                return false;
            }

            let num_peers = match torrent_data {""", """            if !access_list_cache
                .load()
                .allows(config.access_list.mode, &info_hash.0)
                && !matches!(torrent_data, TorrentData::Large(_))
            {
                return false;
            }

            let num_peers = match torrent_data {""")]),
 dict(id="C11-ws-gate-records-before-check", props=["C11"], expect={"C11": r"gate#ws#dominates"},
      edits=[("crates/ws/src/workers/socket/connection.rs", """        let info_hash = request.info_hash;

        if self
            .access_list_cache
            .load()
            .allows(self.config.access_list.mode, &info_hash.0)
        {
            let mut announced_info_hashes = self.clean_up_data.announced_info_hashes.borrow_mut();
""", """        let info_hash = request.info_hash;

        self.clean_up_data.announced_info_hashes.borrow_mut().entry(request.info_hash).or_insert(request.peer_id);

        if self
            .access_list_cache
            .load()
            .allows(self.config.access_list.mode, &info_hash.0)
        {
            let mut announced_info_hashes = self.clean_up_data.announced_info_hashes.borrow_mut();
""")]),
 dict(id="C11-parse-hash-19-bytes", props=["C11"], expect={"C11": r"reload#parse_info_hash"},
      edits=[(AC, "    let mut bytes = [0u8; 20];\n\n    hex::decode_to_slice(line, &mut bytes)?;", "    let mut bytes = [0u8; 20];\n\n    hex::decode_to_slice(line, &mut bytes[..19])?;")]),
]

MIO = US + "workers/socket/mio/"
UR = US + "workers/socket/uring/"
MI = US + "workers/socket/mio/"
MUTANTS += [
 dict(id="C06-uring-sendable-error-ungated", props=["C06"], expect={"C06": r"guard#uring#sendable_error"},
      edits=[(UR+"mod.rs", "                        if self.validator.connection_id_valid(addr, connection_id) {\n                            let response = ErrorResponse {",
              "                        if self.validator.connection_id_valid(addr, connection_id) || err.len() > 20 {\n                            let response = ErrorResponse {")]),
 dict(id="C06-mio-scrape-before-validation", props=["C06"], expect={"C06": r"guard#mio#(handle_request|reply_table)"},
      edits=[(MIO+"mod.rs", """                if self
                    .validator
                    .connection_id_valid(src, request.connection_id)
                {
                    return Some(Response::Scrape(
                        self.shared_state.torrent_maps.scrape(request, src),
                    ));
                }""", """                let valid = self
                    .validator
                    .connection_id_valid(src, request.connection_id);
                let response = Response::Scrape(
                        self.shared_state.torrent_maps.scrape(request, src),
                    );
                if valid {
                    return Some(response);
                }""")]),
 dict(id="C06-mio-second-send-on-error", props=["C06"], expect={"C06": r"reply#mio#(at_most_one|parse_errors)"},
      edits=[(MIO+"socket.rs", "                            self.send_response(shared, src, Response::Error(response), false);\n",
              "                            self.send_response(shared, src, Response::Error(response.clone()), false);\n                            self.send_response(shared, src, Response::Error(response), true);\n")]),
 dict(id="C06-mio-port0-after-parse", props=["C06"], expect={"C06": r"reply#mio#port0_ignored"},
      edits=[(MIO+"socket.rs", "                    if src_port == 0 {\n", "                    if src_port == 0 && bytes_read < 16 {\n")]),
 dict(id="C06-uring-reply-to-other-addr", props=["C06"], expect={"C06": r"guard#uring#reply_table"},
      edits=[(UR+"mod.rs", """                    let response =
                        Response::Scrape(self.shared_state.torrent_maps.scrape(request, src));

                    return Some((src, response));""", """                    let response =
                        Response::Scrape(self.shared_state.torrent_maps.scrape(request, src));

                    return Some((CanonicalSocketAddr::new(src.get_ipv6_mapped()), response));""")]),
 dict(id="C06-mio-connect-txid-zero", props=["C06"], expect={"C06": r"guard#mio#reply_table"},
      edits=[(MIO+"mod.rs", "                    connection_id: self.validator.create_connection_id(src),\n                    transaction_id: request.transaction_id,",
              "                    connection_id: self.validator.create_connection_id(src),\n                    transaction_id: TransactionId::new(request.transaction_id.0.get() & 0x7fff_ffff),")]),
 dict(id="C06-uring-announce-none-when-forbidden", props=["C06"], expect={"C06": r"guard#uring#reply_table"},
      edits=[(UR+"mod.rs", """                        let response = Response::Error(ErrorResponse {
                            transaction_id: request.transaction_id,
                            message: "Info hash not allowed".into(),
                        });

                        return Some((src, response));""", """                        let _response = Response::Error(ErrorResponse {
                            transaction_id: request.transaction_id,
                            message: "Info hash not allowed".into(),
                        });""")]),
 dict(id="C06-uring-sockaddr-port-from-le", props=["C06"], expect={"C06": r"send#uring#sockaddr"},
      edits=[(UR+"send_buffers.rs", "self.name_v6.sin6_port = addr.port().to_be();", "self.name_v6.sin6_port = addr.port().to_le();")]),
 dict(id="C06-scrape-reversed", props=["C06"], expect={"C06": r"scrape#order"},
      edits=[(US+"swarm.rs", "        for info_hash in request.info_hashes {\n            let torrent_map_shard = self.get_shard(&info_hash);", "        for info_hash in request.info_hashes.into_iter().rev() {\n            let torrent_map_shard = self.get_shard(&info_hash);")]),
 dict(id="C06-mio-resend-requeues", props=["C06"], expect={"C06": r"resend#mio#retry_once"},
      edits=[(MI+"socket.rs", "self.send_response(shared, addr, response, true);", "self.send_response(shared, addr, response, false);")]),
 dict(id="C06-mio-queue-even-when-disabled", props=["C06"], expect={"C06": r"resend#mio#queue_only_failed"},
      edits=[(MI+"socket.rs", "                    if !disable_resend_buffer\n                        && ((err.raw_os_error()", "                    if (!disable_resend_buffer || shared.config.network.resend_buffer_max_len > 1)\n                        && ((err.raw_os_error()")]),
 dict(id="C06-mio-queue-after-success", props=["C06"], expect={"C06": r"resend#mio#(queue_only_failed|who_touches_buffer)"},
      edits=[(MI+"socket.rs", "            Ok(_) => (),\n            Err(err) => match self.opt_resend_buffer.as_mut() {",
              "            Ok(_) => {\n                if let Some(b) = self.opt_resend_buffer.as_mut() {\n                    if b.is_empty() && !disable_resend_buffer {\n                        b.push((canonical_addr, response));\n                    }\n                }\n            }\n            Err(err) => match self.opt_resend_buffer.as_mut() {")]),
]

HC = "crates/http/src/workers/socket/"
MUTANTS += [
 dict(id="C03-udp-use-request-ip-when-nonzero", props=["C03"], expect={"C03": r"taint#udp#ip_address_unread|chain#udp#(map_key|ip_address)"},
      edits=[(US+"swarm.rs", """            IpAddr::V4(ip_address) => Response::AnnounceIpv4(self.ipv4.announce(
                config,
                statistics_sender,
                rng,
                request,
                ip_address.into(),""", """            IpAddr::V4(ip_address) => Response::AnnounceIpv4(self.ipv4.announce(
                config,
                statistics_sender,
                rng,
                request,
                if request.ip_address.0 != [0; 4] { request.ip_address } else { ip_address.into() },""")]),
 dict(id="C03-mapped-pattern-fffe", props=["C03"], expect={"C03": r"table#CanonicalSocketAddr::new"},
      edits=[(CM+"lib.rs", "[0, 0, 0, 0, 0, 0, 0, 0, 0, 0, 0xff, 0xff, a, b, c, d] => Self(SocketAddr::V4(", "[0, 0, 0, 0, 0, 0, 0, 0, 0, 0, 0xff, 0xfe, a, b, c, d] => Self(SocketAddr::V4(")]),
 dict(id="C03-ws-mapped-is-v6", props=["C03"], expect={"C03": r"table#IpVersion::canonical_from_ip"},
      edits=[("crates/ws/src/common.rs", "[0, 0, 0, 0, 0, 0, 0, 0, 0, 0, 0xff, 0xff, _, _, _, _] => Self::V4,", "[0, 0, 0, 0, 0, 0, 0, 0, 0, 0, 0xff, 0xff, 0, _, _, _] => Self::V4,")]),
 dict(id="C03-http-first-header-occurrence", props=["C03"], expect={"C03": r"forwarded#last_occurrence"},
      edits=[(HC+"request.rs", "    for header in headers.iter().rev() {", "    for header in headers.iter() {")]),
 dict(id="C03-http-first-address-in-header", props=["C03"], expect={"C03": r"forwarded#last_address"},
      edits=[(HC+"request.rs", "                        .split(',')\n                        .last()", "                        .split(',')\n                        .next()")]),
 dict(id="C03-http-behind-proxy-uses-tcp-peer", props=["C03"], expect={"C03": r"chain#http#proxy_switch"},
      edits=[(HC+"connection.rs", "    let opt_peer_addr = if config.network.runs_behind_reverse_proxy {\n        None\n    } else {", "    let opt_peer_addr = if config.network.runs_behind_reverse_proxy && config.network.keep_alive {\n        None\n    } else {")]),
 dict(id="C03-udp-scrape-family-by-raw-v6", props=["C03"], expect={"C03": r"family#udp#scrape"},
      edits=[(US+"swarm.rs", "        if src.is_ipv4() {\n            self.ipv4.scrape(request)", "        if src.get_ipv6_mapped().is_ipv4() {\n            self.ipv4.scrape(request)")]),
 dict(id="C03-uring-skip-canonicalisation", props=["C03"], expect={"C03": r"chain#udp#uring_name#V6|ctor"},
      edits=[(UR+"recv_helper.rs", """        let addr = SocketAddr::V6(SocketAddrV6::new(
            Ipv6Addr::from(name_data.sin6_addr.s6_addr),
            u16::from_be(name_data.sin6_port),""", """        let addr = SocketAddr::V6(SocketAddrV6::new(
            Ipv6Addr::from(name_data.sin6_addr.s6_addr),
            u16::from_le(name_data.sin6_port),""")]),
]

WST = WS + "storage.rs"
MUTANTS += [
 dict(id="C08-ownership-connection-id-only", props=["C08"], expect={"C08": r"ownership#announce#identity_pair"},
      edits=[(WST, "            if request_sender_meta.connection_id != previous_peer.connection_id\n                || request_sender_meta.out_message_consumer_id.0 != previous_peer.consumer_id.0\n            {",
              "            if request_sender_meta.connection_id != previous_peer.connection_id {")]),
 dict(id="C08-close-without-owner-test", props=["C08"], expect={"C08": r"ownership#close#owner_checked"},
      edits=[(WST, """        match self.peers.get(&peer_id) {
            Some(peer)
                if peer.connection_id == connection_id
                    && peer.consumer_id.0 == out_message_consumer_id.0 => {}
            _ => return,
        }
""", """        let _ = (out_message_consumer_id, connection_id);
""")]),
 dict(id="C08-close-owner-test-consumer-only", props=["C08"], expect={"C08": r"ownership#close#owner_checked"},
      edits=[(WST, "                if peer.connection_id == connection_id\n                    && peer.consumer_id.0 == out_message_consumer_id.0 => {}", "                if peer.consumer_id.0 == out_message_consumer_id.0 => {}")]),
 dict(id="C08-occupied-leeching-increments", props=["C08"], expect={"C08": r"effect#insert_or_update#Occupied/Leeching/True"},
      edits=[(WST, """                    if peer.seeder {
                        self.num_seeders -= 1;
                    }

                    peer.seeder = false;""", """                    if peer.seeder {
                        self.num_seeders += 1;
                    }

                    peer.seeder = false;""")]),
 dict(id="C08-occupied-seeding-forgets-flag", props=["C08"], expect={"C08": r"effect#insert_or_update#Occupied/Seeding"},
      edits=[(WST, "                    peer.seeder = true;\n                    peer.valid_until = valid_until;", "                    peer.valid_until = valid_until;")]),
 dict(id="C08-vacant-seeding-not-counted", props=["C08"], expect={"C08": r"effect#insert_or_update#Vacant/Seeding"},
      edits=[(WST, """                PeerStatus::Seeding => {
                    self.num_seeders += 1;

                    let peer = Peer {""", """                PeerStatus::Seeding => {
                    let peer = Peer {""")]),
 dict(id="C08-close-forgets-seeder-count", props=["C08"], expect={"C08": r"effect#connection_closed"},
      edits=[(WST, """        if let Some(peer) = self.peers.swap_remove(&peer_id) {
            if peer.seeder {
                self.num_seeders -= 1;
            }
""", """        if let Some(peer) = self.peers.swap_remove(&peer_id) {
            let _ = peer.seeder;
""")]),
 dict(id="C08-status-left-none-is-seeder", props=["C08"], expect={"C08": r"table#PeerStatus"},
      edits=[(WST, "        } else if let Some(0) = opt_bytes_left {", "        } else if let Some(0) | None = opt_bytes_left {")]),
 dict(id="C08-scrape-reports-unknown-torrents", props=["C08"], expect={"C08": r"reply#scrape_entries"},
      edits=[(WST, """                out_message.files.insert(info_hash, stats);
            }
        }""", """                out_message.files.insert(info_hash, stats);
            } else {
                out_message.files.insert(info_hash, ScrapeStatistics { complete: 0, downloaded: 0, incomplete: 0 });
            }
        }""")]),
 dict(id="C08-foreign-announce-gets-reply", props=["C08"], expect={"C08": r"ownership#announce#foreign_ignored"},
      edits=[(WST, """                || request_sender_meta.out_message_consumer_id.0 != previous_peer.consumer_id.0
            {
                return;""", """                || request_sender_meta.out_message_consumer_id.0 != previous_peer.consumer_id.0
            {
                out_messages.push((request_sender_meta.into(), OutMessage::ErrorResponse(ErrorResponse { action: Some(ErrorResponseAction::Announce), info_hash: Some(request.info_hash), failure_reason: "peer id in use".into() })));
                return;""")]),
]

WP = "crates/ws_protocol/src/"
MUTANTS += [
 dict(id="C15-remove-exhaustion-test", props=["C15"], expect={"C15": r"decode20#exhaustion_tested"},
      edits=[(WP+"common.rs", """        if char_iter.next().is_some() {
            return Err(E::custom(format!("not 20 bytes: {:#?}", value)));
        }

        Ok(arr)""", """        Ok(arr)""")]),
 dict(id="C15-range-check-dropped", props=["C15"], expect={"C15": r"decode20#range_checked"},
      edits=[(WP+"common.rs", "                if c as u32 > 255 {", "                if c as u32 > 255 && value.len() > 40 {")]),
 dict(id="C15-error-response-before-scrape-and-lenient", props=["C15"], expect={"C15": r"untagged#OutMessage#ErrorResponse<ScrapeResponse"},
      edits=[(WP+"outgoing/mod.rs", "    ScrapeResponse(ScrapeResponse),\n    ErrorResponse(ErrorResponse),\n}", "    ErrorResponse(ErrorResponse),\n    ScrapeResponse(ScrapeResponse),\n}"),
             (WP+"outgoing/error.rs", "    #[serde(rename = \"failure reason\")]", "    #[serde(rename = \"failure reason\", default)]")]),
 dict(id="C15-scrape-request-first", props=["C15"], expect={"C15": r"untagged#InMessage#ScrapeRequest<AnnounceRequest"},
      edits=[(WP+"incoming/mod.rs", "pub enum InMessage {\n    AnnounceRequest(AnnounceRequest),\n    ScrapeRequest(ScrapeRequest),\n}", "pub enum InMessage {\n    ScrapeRequest(ScrapeRequest),\n    AnnounceRequest(AnnounceRequest),\n}"),
             (WP+"common.rs", "#[serde(rename_all = \"lowercase\")]\npub enum ScrapeAction {\n    Scrape,\n}", "#[serde(rename_all = \"lowercase\")]\npub enum ScrapeAction {\n    #[serde(alias = \"announce\")]\n    Scrape,\n}")]),
 dict(id="C15-binary-frames-other-decoder", props=["C15"], expect={"C15": r"frames#InMessage"},
      edits=[(WP+"incoming/mod.rs", "                ::simd_json::serde::from_slice(&mut bytes[..]).context(\"deserialize with serde\")", "                ::serde_json::from_slice(&bytes[..]).context(\"deserialize with serde\")")]),
 dict(id="C15-encoder-buffer-20", props=["C15"], expect={"C15": r"encode20#buffer"},
      edits=[(WP+"common.rs", "    let mut str_buffer = [0u8; 40];", "    let mut str_buffer = [0u8; 20];")]),
]

MUTANTS += [
 dict(id="C18-udp-buffer-512", props=["C18"], expect={"C18": r"default#udp#mio#announce|fit#udp#mio"},
      edits=[(US+"common.rs", "pub const BUFFER_SIZE: usize = 8192;", "pub const BUFFER_SIZE: usize = 512;")]),
 dict(id="C18-udp-validation-counts-ipv4-peers", props=["C18"], expect={"C18": r"fit#udp#(mio|uring)#announce"},
      edits=[(US+"workers/socket/mod.rs", ".saturating_mul(size_of::<ResponsePeer<Ipv6AddrBytes>>());", ".saturating_mul(size_of::<ResponsePeer<aquatic_udp_protocol::Ipv4AddrBytes>>());")]),
 dict(id="C18-udp-validation-after-spawn", props=["C18"], expect={"C18": r"fit#udp#(mio|uring)#announce"},
      edits=[(US+"lib.rs", "    workers::socket::validate_response_sizes(&config)?;\n\n    if config.socket_workers == 0 {", "    if config.socket_workers == 0 {"),
             (US+"lib.rs", "    // Spawn cleaning thread", "    workers::socket::validate_response_sizes(&config)?;\n\n    // Spawn cleaning thread")]),
 dict(id="C18-udp-validation-result-ignored", props=["C18"], expect={"C18": r"fit#udp#(mio|uring)#announce"},
      edits=[(US+"lib.rs", "    workers::socket::validate_response_sizes(&config)?;", "    let _ = workers::socket::validate_response_sizes(&config);")]),
 dict(id="C18-http-buffer-back-to-4096", props=["C18"], expect={"C18": r"fit#http#scrape"},
      edits=[(HC+"connection.rs", "const RESPONSE_BUFFER_SIZE: usize = 8192;", "const RESPONSE_BUFFER_SIZE: usize = 4096;")]),
 dict(id="C18-http-validation-forgets-trailer-and-base", props=["C18"], expect={"C18": r"fit#http#announce"},
      edits=[(HC+"connection.rs", "        + MAX_ANNOUNCE_RESPONSE_BASE_LEN\n        + config.protocol.max_peers.saturating_mul(MAX_PEER_LEN)\n        + 2;", "        + config.protocol.max_peers.saturating_mul(MAX_PEER_LEN);")]),
 dict(id="C18-uring-request-buffer-128", props=["C18"], expect={"C18": r"recv#udp#uring#announce"},
      edits=[(UR+"mod.rs", "const REQUEST_BUF_LEN: usize = 512;", "const REQUEST_BUF_LEN: usize = 128;")]),
 dict(id="C18-uring-response-buffer-1024", props=["C18"], expect={"C18": r"fit#udp#uring#(announce|scrape)"},
      edits=[(UR+"mod.rs", "pub(super) const RESPONSE_BUF_LEN: usize = 2048;", "pub(super) const RESPONSE_BUF_LEN: usize = 1024;"),
             (US+"workers/socket/mod.rs", "        if max_announce_response_len > self::uring::RESPONSE_BUF_LEN {", "        if max_announce_response_len > 2048 {"),
             (US+"workers/socket/mod.rs", "        if max_scrape_response_len > self::uring::RESPONSE_BUF_LEN {", "        if max_scrape_response_len > 2048 {")]),
 dict(id="C18-http-scrape-more-digits", props=["C18"], expect={"C18": r"fit#http#scrape|stream#http"},
      edits=[("crates/http_protocol/src/response.rs", "            bytes_written += output.write(b\"e10:downloadedi0e10:incompletei\")?;", "            bytes_written += output.write(b\"e10:downloadedi00000000000000000000000000000000000000000000000000000000000000000000000000000000e10:incompletei\")?;")]),
]

MUTANTS += [
 dict(id="C19-udp-cleaning-handle-not-pushed", props=["C19"], expect={"C19": r"watched#aquatic_udp$"},
      edits=[(US+"lib.rs", "        join_handles.push((WorkerType::Cleaning, handle));", "        let _ = handle;")]),
 dict(id="C19-http-ok-ok-continues", props=["C19"], expect={"C19": r"watchdog#aquatic_http#finished_means_err"},
      edits=[("crates/http/src/lib.rs", """                    Ok(Ok(())) => {
                        return Err(anyhow::anyhow!("{} stopped", worker_type));
                    }""", """                    Ok(Ok(())) => {
                        ::log::info!("{} stopped", worker_type);
                        break;
                    }""")]),
 dict(id="C19-ws-sleep-50", props=["C19"], expect={"C19": r"watchdog#aquatic_ws#poll_interval"},
      edits=[("crates/ws/src/lib.rs", "        sleep(Duration::from_secs(5));", "        sleep(Duration::from_secs(50));")]),
 dict(id="C19-http-timer-returns-none-on-error", props=["C19"], expect={"C19": r"swallow#timers_repeat"},
      edits=[(HS+"mod.rs", """            } else {
                ::log::warn!("Could not update peer_valid_until due to monotonicity error. Peers may be removed earlier than they should.");
            }

            Some(Duration::from_secs(1))""", """            } else {
                ::log::warn!("Could not update peer_valid_until due to monotonicity error. Peers may be removed earlier than they should.");
                return None;
            }

            Some(Duration::from_secs(1))""")]),
 dict(id="C19-udp-catch-unwind-around-socket-worker", props=["C19"], expect={"C19": r"swallow#catch_unwind|watched#aquatic_udp#closure_results"},
      edits=[(US+"lib.rs", """            .spawn(move || {
                workers::socket::run_socket_worker(
                    config,
                    state,
                    statistics,
                    statistics_sender,
                    connection_validator,
                    priv_droppers,
                )
            })""", """            .spawn(move || {
                loop {
                    let (config, state, statistics, statistics_sender, connection_validator, priv_droppers) = (config.clone(), state.clone(), statistics.clone(), statistics_sender.clone(), connection_validator.clone(), priv_droppers.clone());
                    let r = std::panic::catch_unwind(std::panic::AssertUnwindSafe(move || workers::socket::run_socket_worker(
                        config,
                        state,
                        statistics,
                        statistics_sender,
                        connection_validator,
                        priv_droppers,
                    )));
                    if let Ok(r) = r { return r; }
                }
            })""")]),
 dict(id="C19-ws-swarm-result-swallowed", props=["C19"], expect={"C19": r"watched#aquatic_ws#closure_results|watchdog"},
      edits=[("crates/ws/src/lib.rs", """                    .run(workers::swarm::run_swarm_worker(
                        config,
                        state,
                        control_mesh_builder,
                        request_mesh_builder,
                        response_mesh_builder,
                        server_start_instant,
                        i,
                    ))
            })""", """                    .run(workers::swarm::run_swarm_worker(
                        config,
                        state,
                        control_mesh_builder,
                        request_mesh_builder,
                        response_mesh_builder,
                        server_start_instant,
                        i,
                    )).ok();
                loop { sleep(Duration::from_secs(3600)); }
            })""")]),
 dict(id="C19-udp-statistics-spawned-detached", props=["C19"], expect={"C19": r"watched#aquatic_udp$"},
      edits=[(US+"lib.rs", "        join_handles.push((WorkerType::Statistics, handle));", "        drop(handle);")]),
]

SWR = US + "swarm.rs"
MUTANTS += [
 dict(id="C04-drop-empty-torrent-without-sole-owner-test", props=["C04"], expect={"C04": r"marker#sole_owner"},
      edits=[(SWR, """                if let Some(peer_map) = Arc::get_mut(peer_map) {
                    if peer_map.read().is_empty() {
                        return false;
                    }
                }""", """                if peer_map.read().is_empty() {
                    return false;
                }""")]),
 dict(id="C04-torrent-then-shard", props=["C04"], expect={"C04": r"order#graph"},
      edits=[(SWR, """                // Allow other threads to access the peer map again
                drop(peer_map);

                let num_peers = num_seeders + num_leechers;""", """                let still_there = torrent_map_shard.read().contains_key(&info_hash);

                // Allow other threads to access the peer map again
                drop(peer_map);

                let num_peers = if still_there { num_seeders + num_leechers } else { 0 };""")]),
 dict(id="C04-scrape-two-shards", props=["C04"], expect={"C04": r"order#graph"},
      edits=[(SWR, """            let statistics = if let Some(peer_map) = torrent_map_shard.read().get(&info_hash) {
                peer_map.read().scrape_statistics()""", """            let other = self.0[0].read();
            let statistics = if let Some(peer_map) = torrent_map_shard.read().get(&info_hash) {
                let _ = other.len();
                peer_map.read().scrape_statistics()""")]),
 dict(id="C04-sleep-under-torrent-guard", props=["C04"], expect={"C04": r"order#no_blocking_under_guard"},
      edits=[(SWR, """        let mut peer_map = peer_map.write();

        peer_map.announce(""", """        let mut peer_map = peer_map.write();

        if config.protocol.max_response_peers == usize::MAX { std::thread::sleep(std::time::Duration::from_millis(1)); }

        peer_map.announce(""")]),
 dict(id="BENIGN-C04-strong-count-idiom", props=["C04"], benign=True,
      edits=[(SWR, """                if let Some(peer_map) = Arc::get_mut(peer_map) {
                    if peer_map.read().is_empty() {
                        return false;
                    }
                }""", """                if Arc::strong_count(peer_map) == 1 {
                    if peer_map.read().is_empty() {
                        return false;
                    }
                }""")]),
 dict(id="BENIGN-C04-get-mut-through-exclusive-arc", props=["C04", "C01", "C10"], benign=True,
      edits=[(SWR, """                if let Some(peer_map) = Arc::get_mut(peer_map) {
                    if peer_map.read().is_empty() {
                        return false;
                    }
                }""", """                if let Some(peer_map) = Arc::get_mut(peer_map) {
                    if peer_map.get_mut().is_empty() {
                        return false;
                    }
                }""")]),
 dict(id="BENIGN-C04-announce-holds-shard-while-locking-torrent", props=["C04"], benign=True,
      edits=[(SWR, """        let peer_map = {
            let torrent_map_shard = self.get_shard(&request.info_hash).upgradable_read();
""", """        let keep_alive = self.get_shard(&request.info_hash);
        let peer_map = {
            let _ = keep_alive;
            let torrent_map_shard = self.get_shard(&request.info_hash).upgradable_read();
""")]),
]

HST = HS + "storage.rs"
MUTANTS += [
 dict(id="C01-remove-peer-forgets-counter", props=["C01"], expect={"C01": r"counter#udp#remove_peer"},
      edits=[(SWR, """        if let Some(Peer {
            is_seeder: true, ..
        }) = opt_removed_peer
        {
            self.num_seeders -= 1;
        }

        opt_removed_peer
    }

    /// Extract response peers
    ///
    /// If there are more peers in map than `max_num_peers_to_take`, do a
    /// random""", """        opt_removed_peer
    }

    /// Extract response peers
    ///
    /// If there are more peers in map than `max_num_peers_to_take`, do a
    /// random""")]),
 dict(id="C01-insert-before-extract", props=["C01"], expect={"C01": r"announce#udp#(remove_before_reply_before_insert|insert_by_status)"},
      edits=[(SWR, """            Self::Large(peer_map) => {
                let opt_removed_peer = peer_map.remove_peer(&peer_map_key);

                let (seeders, leechers) = peer_map.num_seeders_leechers();
""", """            Self::Large(peer_map) => {
                let opt_removed_peer = peer_map.remove_peer(&peer_map_key);

                if status != PeerStatus::Stopped {
                    peer_map.insert(peer_map_key, Peer { peer_id: request.peer_id, is_seeder: status == PeerStatus::Seeding, valid_until });
                }
                let (seeders, leechers) = peer_map.num_seeders_leechers();
""")]),
 dict(id="C01-left-le-zero-is-seeder", props=["C01"], expect={"C01": r"status#udp#table"},
      edits=[(SWR, "        } else if bytes_left.0.get() == 0 {", "        } else if bytes_left.0.get() <= 0 {")]),
 dict(id="C01-seeders-leechers-swapped-in-reply", props=["C01"], expect={"C01": r"announce#udp#reply_origin"},
      edits=[(SWR, """            Self::Small(peer_map) => {
                let opt_removed_peer = peer_map.remove(&peer_map_key);

                let (seeders, leechers) = peer_map.num_seeders_leechers();""", """            Self::Small(peer_map) => {
                let opt_removed_peer = peer_map.remove(&peer_map_key);

                let (leechers, seeders) = peer_map.num_seeders_leechers();""")]),
 dict(id="C01-try-shrink-lt-3", props=["C01"], expect={"C01": r"switch#udp#try_shrink"},
      edits=[(SWR, "        (self.peers.len() <= SMALL_PEER_MAP_CAPACITY).then(|| {\n            SmallPeerMap(ArrayVec::from_iter(\n                self.peers.iter().map(|(k, v)| (*k, *v)),\n            ))\n        })\n    }\n}\n\n#[derive(Clone, Copy, Debug)]\nstruct Peer {\n    peer_id",
              "        (self.peers.len() < 2).then(|| {\n            SmallPeerMap(ArrayVec::from_iter(\n                self.peers.iter().map(|(k, v)| (*k, *v)),\n            ))\n        })\n    }\n}\n\n#[derive(Clone, Copy, Debug)]\nstruct Peer {\n    peer_id")]),
 dict(id="C01-key-uses-peer-id-port-zero", props=["C01"], expect={"C01": r"announce#udp#key"},
      edits=[(SWR, "        let peer_map_key = ResponsePeer {\n            ip_address,\n            port: request.port,\n        };\n\n        // Create the response before inserting the peer. This means that we\n        // don't have to filter it out from the response peers, and that the\n        // reported number of seeders/leechers will not include it\n        let (response, opt_removed_peer)",
              "        let peer_map_key = ResponsePeer {\n            ip_address,\n            port: if request.key.0.get() == 7 { Port::new(std::num::NonZeroU16::MIN) } else { request.port },\n        };\n\n        // Create the response before inserting the peer. This means that we\n        // don't have to filter it out from the response peers, and that the\n        // reported number of seeders/leechers will not include it\n        let (response, opt_removed_peer)")]),
 dict(id="C01-to-large-drops-last", props=["C01"], expect={"C01": r"switch#udp#(to_large|lossless)"},
      edits=[(SWR, "        let peers = self.0.iter().copied().collect();\n\n        LargePeerMap { peers, num_seeders }\n    }\n}\n\n#[derive(Default)]\npub struct LargePeerMap<I: Ip> {\n    peers: IndexMap<ResponsePeer<I>, Peer>,",
              "        let peers = self.0.iter().skip(1).copied().collect();\n\n        LargePeerMap { peers, num_seeders }\n    }\n}\n\n#[derive(Default)]\npub struct LargePeerMap<I: Ip> {\n    peers: IndexMap<ResponsePeer<I>, Peer>,")]),
 dict(id="C07-http-insert-on-stopped", props=["C07"], expect={"C07": r"announce#http#insert_by_status"},
      edits=[(HST, """            PeerStatus::Stopped =>
            {""", """            PeerStatus::Stopped if request.numwant == Some(1) =>
            {
                match self {
                    Self::Small(peer_map) => if !peer_map.is_full() { peer_map.insert(peer_map_key, Peer { is_seeder: false, valid_until }) },
                    Self::Large(peer_map) => peer_map.insert(peer_map_key, Peer { is_seeder: false, valid_until }),
                }
            }
            PeerStatus::Stopped =>
            {""")]),
 dict(id="C07-http-scrape-take-dropped", props=["C07"], expect={"C07": r"scrape#http#truncation"},
      edits=[(HST, "        for info_hash in request.info_hashes.into_iter().take(num_to_take) {", "        let _ = num_to_take;\n        for info_hash in request.info_hashes.into_iter() {")]),
 dict(id="C07-http-clean-keeps-empty-torrents", props=["C07"], expect={"C07": r"clean#http#keep_iff_peers"},
      edits=[(HST, "            total_num_peers += num_peers as u64;\n\n            num_peers > 0\n        });\n\n        self.torrents.shrink_to_fit();\n\n        #[cfg(feature = \"metrics\")]\n        self.peer_gauge.set(total_num_peers as f64);\n    }",
              "            total_num_peers += num_peers as u64;\n\n            true\n        });\n\n        self.torrents.shrink_to_fit();\n\n        #[cfg(feature = \"metrics\")]\n        self.peer_gauge.set(total_num_peers as f64);\n    }")]),
 dict(id="C07-http-large-insert-always-counts", props=["C07"], expect={"C07": r"counter#http#insert"},
      edits=[(HST, "    fn insert(&mut self, key: ResponsePeer<I>, peer: Peer) {\n        if peer.is_seeder {\n            self.num_seeders += 1;\n        }\n", "    fn insert(&mut self, key: ResponsePeer<I>, peer: Peer) {\n        self.num_seeders += peer.is_seeder as usize + (self.peers.len() == usize::MAX) as usize;\n")]),
 dict(id="C07-http-status-left-one", props=["C07"], expect={"C07": r"status#http#table"},
      edits=[(HST, "        } else if bytes_left == 0 {", "        } else if bytes_left <= 1 {")]),
]

MUTANTS += [
 dict(id="C02-udp-guard-lt", props=["C02"], expect={"C02": r"select#udp#guard|select#sibling"},
      edits=[(SWR, "        if self.peers.len() <= max_num_peers_to_take {\n            self.peers.keys().copied().collect()", "        if self.peers.len() < max_num_peers_to_take {\n            self.peers.keys().copied().collect()")]),
 dict(id="C02-http-half-is-max", props=["C02"], expect={"C02": r"select#http#ranges"},
      edits=[(HST, "            let num_to_take_per_half = max_num_peers_to_take / 2;", "            let num_to_take_per_half = max_num_peers_to_take / 1;")]),
 dict(id="C02-ws-plus-one-dropped", props=["C02"], expect={"C02": r"select#ws#ranges"},
      edits=[(WST, "        let num_to_take_per_half = (max_num_peers_to_take / 2) + 1;", "        let num_to_take_per_half = max_num_peers_to_take / 2;")]),
 dict(id="C02-udp-clamp-lt-zero", props=["C02"], expect={"C02": r"clamp#udp"},
      edits=[(SWR, "        let max_num_peers_to_take: usize = if request.peers_wanted.0.get() <= 0 {", "        let max_num_peers_to_take: usize = if request.peers_wanted.0.get() < 0 {")]),
 dict(id="C02-http-clamp-zero-means-zero", props=["C02"], expect={"C02": r"clamp#http"},
      edits=[(HST, "            Some(0) | None => config.protocol.max_peers,", "            None => config.protocol.max_peers,")]),
 dict(id="C02-ws-second-half-unfiltered", props=["C02"], expect={"C02": r"exclude#ws#(every_extend_filtered|filter_closures)"},
      edits=[(WST, """        if let Some(slice) = peer_map.get_range(offset_half_two..end_half_two) {
            peers.extend(slice.iter().filter_map(|(k, v)| {
                (*k != sender_peer_map_key).then_some(peer_conversion_function(k, v))
            }));
        }""", """        if let Some(slice) = peer_map.get_range(offset_half_two..end_half_two) {
            peers.extend(slice.iter().map(|(k, v)| peer_conversion_function(k, v)));
        }""")]),
 dict(id="C02-ws-no-truncation", props=["C02"], expect={"C02": r"exclude#ws#truncated_to_max"},
      edits=[(WST, "        while peers.len() > max_num_peers_to_take {\n            peers.pop();\n        }\n\n        peers\n    }\n}", "        peers\n    }\n}")]),
 dict(id="C02-udp-offset-two-from-zero", props=["C02"], expect={"C02": r"select#udp#ranges"},
      edits=[(SWR, "                let from = middle_index;\n                let to = usize::max(middle_index + 1, self.peers.len() - num_to_take_per_half);", "                let from = middle_index - middle_index;\n                let to = usize::max(middle_index + 1, self.peers.len() - num_to_take_per_half);")]),
 dict(id="C02-ws-limit-from-peer-count", props=["C02"], expect={"C02": r"clamp#ws"},
      edits=[(WST, "        let max_num_peers_to_take = offers.len().min(config.protocol.max_offers);", "        let max_num_peers_to_take = offers.len().max(config.protocol.max_offers).min(self.peers.len());")]),
]

MUTANTS += [
 dict(id="C09-expectation-under-sender-id", props=["C09"], expect={"C09": r"offers#(expectation|same_tuple)"},
      edits=[(WST, "                    ExpectingAnswer {\n                        from_peer_id: offer_receiver_peer_id,\n                        regarding_offer_id: offer.offer_id,\n                    },", "                    ExpectingAnswer {\n                        from_peer_id: sender_peer_id,\n                        regarding_offer_id: offer.offer_id,\n                    },")]),
 dict(id="C09-forward-answer-when-not-expected", props=["C09"], expect={"C09": r"answers#"},
      edits=[(WST, "            if answer_receiver\n                .expecting_answers\n                .swap_remove(&expecting_answer)\n                .is_some()\n            {", "            if answer_receiver\n                .expecting_answers\n                .swap_remove(&expecting_answer)\n                .is_some() || answer_receiver.seeder\n            {")]),
 dict(id="C09-answer-lookup-not-consumed", props=["C09"], expect={"C09": r"answers#"},
      edits=[(WST, "                .expecting_answers\n                .swap_remove(&expecting_answer)\n                .is_some()", "                .expecting_answers\n                .get(&expecting_answer)\n                .is_some()")]),
 dict(id="C09-offers-for-stopped", props=["C09"], expect={"C09": r"gating#not_stopped"},
      edits=[(WST, "        if peer_status != PeerStatus::Stopped {\n            if let Some(offers) = request.offers {", "        if peer_status != PeerStatus::Stopped || request.numwant == Some(1) {\n            if let Some(offers) = request.offers {")]),
 dict(id="C09-meta-consumer-from-sender", props=["C09"], expect={"C09": r"offers#(addressing|same_tuple)"},
      edits=[(WST, "                let meta = OutMessageMeta {\n                    out_message_consumer_id: offer_receiver_consumer_id,\n                    connection_id: offer_receiver_connection_id,", "                let meta = OutMessageMeta {\n                    out_message_consumer_id: peer.consumer_id,\n                    connection_id: offer_receiver_connection_id,")]),
 dict(id="C09-offer-tagged-with-receiver-id", props=["C09"], expect={"C09": r"offers#message"},
      edits=[(WST, "                    info_hash,\n                    peer_id: sender_peer_id,\n                    offer: offer.offer,", "                    info_hash,\n                    peer_id: offer_receiver_peer_id,\n                    offer: offer.offer,")]),
 dict(id="C09-receivers-reversed", props=["C09"], expect={"C09": r"pairing#(zip|no_reorder)"},
      edits=[(WST, "            ) in offers.into_iter().zip(offer_receivers)\n", "            ) in offers.into_iter().rev().zip(offer_receivers)\n")]),
 dict(id="C09-push-before-recording", props=["C09"], expect={"C09": r"offers#same_tuple"},
      edits=[(WST, """                peer.expecting_answers.insert(
                    ExpectingAnswer {
                        from_peer_id: offer_receiver_peer_id,
                        regarding_offer_id: offer.offer_id,
                    },
                    valid_until,
                );
""", """                if config.protocol.max_offers > 1 {
                peer.expecting_answers.insert(
                    ExpectingAnswer {
                        from_peer_id: offer_receiver_peer_id,
                        regarding_offer_id: offer.offer_id,
                    },
                    valid_until,
                );
                }
""")]),
 dict(id="C09-answer-meta-swapped-with-sender", props=["C09"], expect={"C09": r"answers#"},
      edits=[(WST, "                let meta = OutMessageMeta {\n                    out_message_consumer_id: answer_receiver.consumer_id,\n                    connection_id: answer_receiver.connection_id,", "                let meta = OutMessageMeta {\n                    out_message_consumer_id: request_sender_meta.out_message_consumer_id,\n                    connection_id: answer_receiver.connection_id,")]),
]

MUTANTS += [
 dict(id="C20-rename-before-flush", props=["C20"], expect={"C20": r"export#order"},
      edits=[(SWR, """        if let Some(mut w) = opt_scrape_export_writer.take() {
            if let Err(err) = w.flush() {""", """        if let Some(mut w) = opt_scrape_export_writer.take() {
            let _ = ::std::fs::rename(config.scrape_exports.tmp_path(), &config.scrape_exports.path);
            if let Err(err) = w.flush() {""")]),
 dict(id="C20-write-to-final-path", props=["C20"], expect={"C20": r"export#(tmp_target|rename_args|order)"},
      edits=[(SWR, "            match File::create(config.scrape_exports.tmp_path()) {", "            match File::create(&config.scrape_exports.path) {")]),
 dict(id="C20-rename-even-if-flush-fails", props=["C20"], expect={"C20": r"export#order"},
      edits=[(SWR, """            } else {
                drop(w);

                if let Err(err) = ::std::fs::rename(""", """            }
            {
                drop(w);

                if let Err(err) = ::std::fs::rename(""")]),
 dict(id="C20-removed-uses-request-id-again", props=["C20"], expect={"C20": r"tally#announce#(removed_id_is_stored_id|message_table)"},
      edits=[(SWR, "                            .try_send(StatisticsMessage::PeerRemoved(removed_peer.peer_id))", "                            .try_send(StatisticsMessage::PeerRemoved(if removed_peer.is_seeder { removed_peer.peer_id } else { request.peer_id }))")]),
 dict(id="C20-id-change-only-adds", props=["C20"], expect={"C20": r"tally#announce#message_table"},
      edits=[(SWR, """                        if let Some(removed_peer_id) = opt_removed_peer_id {
                            statistics_sender
                                .try_send(StatisticsMessage::PeerRemoved(removed_peer_id))
                                .expect("statistics channel should be unbounded");
                        }
""", """                        let _ = opt_removed_peer_id;
""")]),
 dict(id="C20-export-leechers-from-seeders", props=["C20"], expect={"C20": r"content#line"},
      edits=[(SWR, "                            seeders = num_seeders,\n                            leechers = num_leechers", "                            seeders = num_seeders,\n                            leechers = num_seeders")]),
 dict(id="C20-export-empty-torrents-too", props=["C20"], expect={"C20": r"content#only_with_peers"},
      edits=[(SWR, """                if num_peers != 0 {
                    if let Some(histogram) = opt_histogram.as_mut() {""", """                {
                    if let Some(histogram) = opt_histogram.as_mut() {""")]),
 dict(id="C20-totals-stored-before-ipv6-pass", props=["C20"], expect={"C20": r"totals#udp#stored"},
      edits=[(SWR, """        let ipv6 = self.ipv6.clean_and_get_statistics(
            config,
            &mut statistics_messages,
            &mut cache,
            mode,
            seconds_since_server_start,
            &mut opt_scrape_export_writer,
        );

        if config.statistics.active() {
            statistics.ipv4.torrents.store(ipv4.0, Ordering::Relaxed);""", """        if config.statistics.active() {
            statistics.ipv4.torrents.store(ipv4.0, Ordering::Relaxed);
        }
        let ipv6 = self.ipv6.clean_and_get_statistics(
            config,
            &mut statistics_messages,
            &mut cache,
            mode,
            seconds_since_server_start,
            &mut opt_scrape_export_writer,
        );

        if config.statistics.active() {""")]),
 dict(id="C20-cleaner-forgets-peer-removed-large", props=["C20"], expect={"C20": r"tally#clean#LargePeerMap"},
      edits=[(SWR, """                if config.statistics.peer_clients {
                    statistics_messages.push(StatisticsMessage::PeerRemoved(peer.peer_id));
                }
            }

            keep
        });

        if !self.peers.is_empty() {""", """                if config.statistics.peer_clients && peer.is_seeder {
                    statistics_messages.push(StatisticsMessage::PeerRemoved(peer.peer_id));
                }
            }

            keep
        });

        if !self.peers.is_empty() {""")]),
 dict(id="C20-worker-removed-adds", props=["C20"], expect={"C20": r"tally#worker_arithmetic"},
      edits=[(US+"workers/statistics/mod.rs", "                            *count -= 1;\n\n                            if *count == 0 {", "                            *count += 1;\n\n                            if *count == 0 {")]),
]

HP = "crates/http_protocol/src/"
MUTANTS += [
 dict(id="C14-incomplete-before-complete", props=["C14"], expect={"C14": r"bencode#AnnounceResponse#wellformed"},
      edits=[(HP+"response.rs", """        bytes_written += output.write(b"d8:completei")?;
        bytes_written += output.write(itoa::Buffer::new().format(self.complete).as_bytes())?;

        bytes_written += output.write(b"e10:incompletei")?;
        bytes_written += output.write(itoa::Buffer::new().format(self.incomplete).as_bytes())?;
""", """        bytes_written += output.write(b"d10:incompletei")?;
        bytes_written += output.write(itoa::Buffer::new().format(self.incomplete).as_bytes())?;

        bytes_written += output.write(b"e8:completei")?;
        bytes_written += output.write(itoa::Buffer::new().format(self.complete).as_bytes())?;
""")]),
 dict(id="C14-peers-len-times-8", props=["C14"], expect={"C14": r"bencode#AnnounceResponse#wellformed"},
      edits=[(HP+"response.rs", "                .format(self.peers.0.len() * 6)", "                .format(self.peers.0.len() * 8)")]),
 dict(id="C14-scrape-missing-final-e", props=["C14"], expect={"C14": r"bencode#ScrapeResponse#wellformed"},
      edits=[(HP+"response.rs", "            bytes_written += output.write(b\"ee\")?;\n        }\n\n        bytes_written += output.write(b\"ee\")?;", "            bytes_written += output.write(b\"ee\")?;\n        }\n\n        bytes_written += output.write(b\"e\")?;")]),
 dict(id="C14-writer-left-renamed", props=["C14"], expect={"C14": r"request#announce#(writer|agreement)"},
      edits=[(HP+"request.rs", "        output.write_all(b\"&left=\")?;", "        output.write_all(b\"&remaining=\")?;")]),
 dict(id="C14-reader-uploaded-into-downloaded", props=["C14"], expect={"C14": r"request#announce#(reader|agreement)"},
      edits=[(HP+"request.rs", """                "uploaded" => {
                    opt_bytes_uploaded =""", """                "uploaded" => {
                    opt_bytes_downloaded ="""),
             (HP+"request.rs", """                "downloaded" => {
                    opt_bytes_downloaded =""", """                "downloaded" => {
                    opt_bytes_uploaded =""")]),
 dict(id="C14-urldecode-no-exhaustion-test", props=["C14"], expect={"C14": r"decode20#exhaustion_tested"},
      edits=[(HP+"utils.rs", "    if chars.next().is_some() {\n        return Err(anyhow::anyhow!(\"more than 20 chars\"));\n    }\n\n    Ok(out_arr)", "    Ok(out_arr)")]),
 dict(id="C14-event-stopped-written-as-stop", props=["C14"], expect={"C14": r"request#announce#events"},
      edits=[(HP+"request.rs", "            AnnounceEvent::Stopped => output.write_all(b\"&event=stopped\")?,", "            AnnounceEvent::Stopped => output.write_all(b\"&event=paused\")?,")]),
 dict(id="C14-failure-length-from-chars", props=["C14"], expect={"C14": r"bencode#FailureResponse#wellformed"},
      edits=[(HP+"response.rs", "        bytes_written += output.write(itoa::Buffer::new().format(reason_bytes.len()).as_bytes())?;", "        bytes_written += output.write(itoa::Buffer::new().format(self.failure_reason.chars().count()).as_bytes())?;")]),
 dict(id="C14-peer6-port-little-endian-width", props=["C14"], expect={"C14": r"bencode#AnnounceResponse#wellformed"},
      edits=[(HP+"response.rs", "            bytes_written += output.write(&u128::from(peer.ip_address).to_be_bytes())?;\n            bytes_written += output.write(&peer.port.to_be_bytes())?;", "            bytes_written += output.write(&u128::from(peer.ip_address).to_be_bytes())?;\n            bytes_written += output.write(&(peer.port as u32).to_be_bytes())?;")]),
 dict(id="C14-failure-optional", props=["C14"], expect={"C14": r"untagged#Response#"},
      edits=[(HP+"response.rs", "pub enum Response {\n    Announce(AnnounceResponse),\n    Scrape(ScrapeResponse),\n    Failure(FailureResponse),\n}", "pub enum Response {\n    Failure(FailureResponse),\n    Announce(AnnounceResponse),\n    Scrape(ScrapeResponse),\n}"),
             (HP+"response.rs", "pub struct FailureResponse {\n    #[serde(rename = \"failure reason\")]", "pub struct FailureResponse {\n    #[serde(rename = \"failure reason\", default)]")]),
]

HCN = HC + "connection.rs"
MUTANTS += [
 dict(id="C16-content-length-plus-one", props=["C16"], expect={"C16": r"framing#(content_length_value|trailer_blank_digits)"},
      edits=[(HCN, "        let content_len = body_len + 2;", "        let content_len = body_len + 1;")]),
 dict(id="C16-blank-after-digits", props=["C16"], expect={"C16": r"framing#trailer_blank_digits"},
      edits=[(HCN, """        {
            let start = RESPONSE_HEADER_A.len();
            let end = start + RESPONSE_HEADER_B.len();

            self.response_buffer[start..end].copy_from_slice(RESPONSE_HEADER_B);
        }

        // Set content-len header value

        {
            let mut buf = ::itoa::Buffer::new();
            let content_len_bytes = buf.format(content_len).as_bytes();

            let start = RESPONSE_HEADER_A.len();
            let end = start + content_len_bytes.len();

            self.response_buffer[start..end].copy_from_slice(content_len_bytes);
        }
""", """        {
            let mut buf = ::itoa::Buffer::new();
            let content_len_bytes = buf.format(content_len).as_bytes();

            let start = RESPONSE_HEADER_A.len();
            let end = start + content_len_bytes.len();

            self.response_buffer[start..end].copy_from_slice(content_len_bytes);
        }
        if content_len > 99_999_999 {
            let start = RESPONSE_HEADER_A.len();
            let end = start + RESPONSE_HEADER_B.len();

            self.response_buffer[start..end].copy_from_slice(RESPONSE_HEADER_B);
        }
""")]),
 dict(id="C16-announce-routed-by-second-byte", props=["C16"], expect={"C16": r"routing#(function|announce)"},
      edits=[(HCN, "    (info_hash.0[0] as usize) % config.swarm_workers", "    (info_hash.0[1] as usize) % config.swarm_workers")]),
 dict(id="C16-scrape-take-dropped", props=["C16"], expect={"C16": r"scrape#truncated_before_fanout"},
      edits=[(HCN, "                for info_hash in info_hashes.into_iter().take(max_scrape_torrents) {", "                let _ = max_scrape_torrents;\n                for info_hash in info_hashes.into_iter() {")]),
 dict(id="C16-send-without-trailer", props=["C16"], expect={"C16": r"framing#bytes_sent"},
      edits=[(HCN, "            .write(&self.response_buffer[..position])", "            .write(&self.response_buffer[..position - 2])")]),
 dict(id="C16-announce-to-worker-zero-when-single-socket", props=["C16"], expect={"C16": r"routing#announce"},
      edits=[(HCN, "                    let consumer_index = calculate_request_consumer_index(&self.config, info_hash);\n\n                    // Only fails when receiver is closed\n                    self.request_senders\n                        .send_to(consumer_index, request)",
              "                    let consumer_index = if self.config.socket_workers == 1 { 0 } else { calculate_request_consumer_index(&self.config, info_hash) };\n\n                    // Only fails when receiver is closed\n                    self.request_senders\n                        .send_to(consumer_index, request)")]),
 dict(id="C16-keep-alive-ignored", props=["C16"], expect={"C16": r"loop#keep_alive_exit"},
      edits=[(HCN, "            if !self.config.network.keep_alive {\n                break;\n            }", "            if !self.config.network.keep_alive && self.config.network.runs_behind_reverse_proxy {\n                break;\n            }")]),
 dict(id="C16-header-cells-4", props=["C16"], expect={"C16": r"framing#(digit_cells|header_text|trailer_blank_digits)"},
      edits=[(HCN, "const RESPONSE_HEADER_B: &[u8] = b\"        \";", "const RESPONSE_HEADER_B: &[u8] = b\"   \";")]),
 dict(id="C16-pending-count-hashes", props=["C16"], expect={"C16": r"routing#pending_count"},
      edits=[(HCN, "                let pending_worker_responses = info_hashes_by_worker.len();", "                let pending_worker_responses = info_hashes_by_worker.values().map(|v| v.len()).sum::<usize>().min(info_hashes_by_worker.len() + 1);")]),
]

WCN = "crates/ws/src/workers/socket/connection.rs"
MUTANTS += [
 dict(id="C17-return-before-after-close", props=["C17"], expect={"C17": r"cleanup#always_runs"},
      edits=[(WCN, "        ::log::debug!(\"connection {:?} starting clean up\", connection_id);\n", "        ::log::debug!(\"connection {:?} starting clean up\", connection_id);\n        if config.network.enable_http_health_checks && config.cleaning.max_connection_idle == 0 { return; }\n")]),
 dict(id="C17-answer-meta-split", props=["C17", "C09"], expect={"C17": r"pair#out_message_meta", "C09": r"answers#"},
      edits=[(WST, "                let meta = OutMessageMeta {\n                    out_message_consumer_id: answer_receiver.consumer_id,\n                    connection_id: answer_receiver.connection_id,", "                let meta = OutMessageMeta {\n                    out_message_consumer_id: answer_receiver.consumer_id,\n                    connection_id: request_sender_meta.connection_id,")]),
 dict(id="C17-send-before-recording", props=["C17"], expect={"C17": r"record#before_send"},
      edits=[(WCN, """                Entry::Vacant(entry) => {
                    entry.insert(request.peer_id);
""", """                Entry::Vacant(entry) => {
                    if self.config.network.enable_http_health_checks { entry.insert(request.peer_id); }
""")]),
 dict(id="C17-empty-scrape-unanswered-again", props=["C17"], expect={"C17": r"pending#registered_only_if_asked"},
      edits=[(WCN, """        if info_hashes_by_worker.is_empty() {
            self.send_error_response(
                "No info hashes in scrape request".into(),
                Some(ErrorResponseAction::Scrape),
                None,
            )
            .await?;

            return Ok(());
        }
""", "")]),
 dict(id="C17-second-peer-id-tolerated", props=["C17"], expect={"C17": r"record#(second_peer_id_refused|before_send)"},
      edits=[(WCN, """                        return Err(anyhow::anyhow!(
                            "Peer used more than one PeerId for a single torrent"
                        ));""", """                        ::log::debug!("Peer used more than one PeerId for a single torrent");
                        announced_info_hashes = self.clean_up_data.announced_info_hashes.borrow_mut();""")]),
 dict(id="C17-swarm-sends-to-consumer-zero", props=["C17"], expect={"C17": r"pair#swarm_send"},
      edits=[("crates/ws/src/workers/swarm/mod.rs", "                        .send_to(meta.out_message_consumer_id.0 as usize, (meta, out_message))", "                        .send_to((meta.out_message_consumer_id.0 as usize) % 1, (meta, out_message))")]),
 dict(id="C17-close-routed-by-other-function", props=["C17"], expect={"C17": r"cleanup#same_routing_function"},
      edits=[(WCN, "        for (info_hash, peer_id) in self.announced_info_hashes.take().into_iter() {\n            let consumer_index = calculate_in_message_consumer_index(config, info_hash);", "        for (info_hash, peer_id) in self.announced_info_hashes.take().into_iter() {\n            let consumer_index = (info_hash.0[1] as usize) % config.swarm_workers;")]),
 dict(id="C17-merged-reply-one-part-early", props=["C17"], expect={"C17": r"pending#merge_when_last"},
      edits=[(WCN, "                    if pending_response.pending_worker_out_messages == 0 {", "                    if pending_response.pending_worker_out_messages <= 1 {")]),
 dict(id="C17-stopped-keeps-record", props=["C17"], expect={"C17": r"record#stopped_forgets"},
      edits=[(WCN, "            if let Some(AnnounceEvent::Stopped) = request.event {\n                announced_info_hashes.remove(&request.info_hash);\n            }", "            if let Some(AnnounceEvent::Stopped) = request.event {\n                announced_info_hashes.shrink_to_fit();\n            }")]),
]

MUTANTS += [
 dict(id="C12-udp-action-indexed", props=["C12"], expect={"C12": r"site#aquatic_udp_protocol::request::Request::parse_bytes#call|guard#udp_protocol#no_unchecked_index"},
      edits=[(UP+"request.rs", """        let action = bytes
            .get(8..12)
            .map(|bytes| I32::from_bytes(bytes.try_into().unwrap()))
            .ok_or_else(|| RequestParseError::unsendable_text("Couldn't parse action"))?;
""", """        let action = I32::from_bytes(bytes[8..12].try_into().unwrap());
""")]),
 dict(id="C12-udp-count-unwrap", props=["C12"], expect={"C12": r"site#aquatic_udp::swarm::PeerMap::announce#call:Result::unwrap"},
      edits=[(SWR, "                        leechers: NumberOfPeers::new(leechers.try_into().unwrap_or(i32::MAX)),\n                        seeders: NumberOfPeers::new(seeders.try_into().unwrap_or(i32::MAX)),\n                    },\n                    peers: peer_map.extract_response_peers(max_num_peers_to_take),",
              "                        leechers: NumberOfPeers::new(leechers.try_into().unwrap()),\n                        seeders: NumberOfPeers::new(seeders.try_into().unwrap_or(i32::MAX)),\n                    },\n                    peers: peer_map.extract_response_peers(max_num_peers_to_take),")]),
 dict(id="C12-udp-numwant-clamp-removed", props=["C12", "C02"], expect={"C12": r"guard#udp#numwant_unwrap", "C02": r"clamp#udp"},
      edits=[(SWR, "        let max_num_peers_to_take: usize = if request.peers_wanted.0.get() <= 0 {\n            config.protocol.max_response_peers\n        } else {", "        let max_num_peers_to_take: usize = if request.peers_wanted.0.get() == 0 {\n            config.protocol.max_response_peers\n        } else {")]),
 dict(id="C12-http-with-capacity-numwant", props=["C12"], expect={"C12": r"alloc#sizes"},
      edits=[(HST, "            let mut peers = Vec::with_capacity(max_num_peers_to_take);", "            let mut peers = Vec::with_capacity(end_half_two);")]),
 dict(id="C12-ws-selection-unguarded", props=["C12", "C02"], expect={"C12": r"guard#ws#selection", "C02": r"select#ws"},
      edits=[(WST, "    if peer_map.len() <= max_num_peers_to_take + 1 {", "    if peer_map.len() <= max_num_peers_to_take {")]),
 dict(id="C12-http-new-expect-in-parser", props=["C12"], expect={"C12": r"site#aquatic_http_protocol::request::AnnounceRequest::parse_query_string"},
      edits=[(HP+"request.rs", "                    opt_port = Some(value.parse::<u16>().with_context(|| \"parse port\")?);", "                    opt_port = Some(value.parse::<u16>().expect(\"parse port\"));")]),
 dict(id="C12-ws-slab-index", props=["C12"], expect={"C12": r"site#aquatic_ws::workers::socket::connection::ConnectionWriter::run_out_message_loop"},
      edits=[(WCN, """                    let pending_response = pending_responses
                        .get_mut(pending_scrape_id.0 as usize)
                        .ok_or(anyhow::anyhow!("pending scrape not found in slab"))?;
""", """                    let pending_response = &mut pending_responses[pending_scrape_id.0 as usize];
""")]),
 dict(id="C12-ws-unparsable-message-scrapes", props=["C12"], expect={"C12": r"reject#ws#parse_gate"},
      edits=[(WCN, """                            self.send_error_response("Invalid request".into(), None, None)
                                .await?;
                        }""", """                            self.send_error_response("Invalid request".into(), None, None)
                                .await?;
                            self.handle_scrape_request(ScrapeRequest {
                                action: ScrapeAction::Scrape,
                                info_hashes: None,
                            })
                            .await?;
                        }""")]),
 dict(id="C12-http-read-request-default-on-error", props=["C12"], expect={"C12": r"reject#http#parse_gate"},
      edits=[(HC+"connection.rs", """                Err(RequestParseError::Other(err)) => {
                    ::log::debug!("Failed parsing request: {:#}", err);
                }""", """                Err(RequestParseError::Other(err)) => {
                    ::log::debug!("Failed parsing request: {:#}", err);

                    if self.request_buffer_position > 4096 {
                        return Ok((
                            Request::Scrape(aquatic_http_protocol::request::ScrapeRequest {
                                info_hashes: Vec::new(),
                            }),
                            None,
                        ));
                    }
                }""")]),
]

# renames of parameters / captured locals must not change any verdict (names are pinned by position, tables/pinned_names.json)
MUTANTS += [
 dict(id="BENIGN-rename-param-src", props=["C06", "C11", "C03"], benign=True,
      edits=[(MIO+"mod.rs", "    fn handle_request(&mut self, request: Request, src: CanonicalSocketAddr) -> Option<Response> {", "    fn handle_request(&mut self, request: Request, source: CanonicalSocketAddr) -> Option<Response> {"),
             (MIO+"mod.rs", "                    connection_id: self.validator.create_connection_id(src),", "                    connection_id: self.validator.create_connection_id(source),"),
             (MIO+"mod.rs", """                if self
                    .validator
                    .connection_id_valid(src, request.connection_id)
                {
                    if self""", """                if self
                    .validator
                    .connection_id_valid(source, request.connection_id)
                {
                    if self"""),
             (MIO+"mod.rs", "                            &request,\n                            src,\n                            self.peer_valid_until,", "                            &request,\n                            source,\n                            self.peer_valid_until,"),
             (MIO+"mod.rs", """                if self
                    .validator
                    .connection_id_valid(src, request.connection_id)
                {
                    return Some(Response::Scrape(
                        self.shared_state.torrent_maps.scrape(request, src),""", """                if self
                    .validator
                    .connection_id_valid(source, request.connection_id)
                {
                    return Some(Response::Scrape(
                        self.shared_state.torrent_maps.scrape(request, source),""")]),
 dict(id="BENIGN-rename-captured-now", props=["C10", "C07", "C11"], benign=True,
      edits=[(HST, """        access_list_cache: &mut AccessListCache,
        now: SecondsSinceServerStart,
    ) {
        let mut total_num_peers = 0;

        self.torrents.retain(|info_hash, torrent_data| {""", """        access_list_cache: &mut AccessListCache,
        current_time: SecondsSinceServerStart,
    ) {
        let mut total_num_peers = 0;

        self.torrents.retain(|info_hash, torrent_data| {"""),
             (HST, "                TorrentData::Small(t) => t.clean_and_get_num_peers(now),\n                TorrentData::Large(t) => t.clean_and_get_num_peers(now),", "                TorrentData::Small(t) => t.clean_and_get_num_peers(current_time),\n                TorrentData::Large(t) => t.clean_and_get_num_peers(current_time),")]),
 dict(id="BENIGN-extra-logging-and-temp", props=["C01", "C02", "C20", "C12"], benign=True,
      edits=[(SWR, "        let status =\n            PeerStatus::from_event_and_bytes_left(request.event.into(), request.bytes_left);", "        let event = request.event.into();\n        let status = PeerStatus::from_event_and_bytes_left(event, request.bytes_left);\n        ::log::trace!(\"announce status: {:?}\", status);")]),
 dict(id="C20-remove-all-peers-skips-large-maps", props=["C20"], expect={"C20": r"tally#udp#forbidden_torrent_peers_not_removed"},
      edits=[(US+"swarm.rs", """                Self::Large(peer_map) => {
                    for peer in peer_map.peers.values() {
                        statistics_messages.push(StatisticsMessage::PeerRemoved(peer.peer_id));
                    }
                }
            }
        }

        *self = Self::default();""", """                Self::Large(_) => {}
            }
        }

        *self = Self::default();""")]),
 dict(id="C20-forbidden-test-only-in-allow-mode", props=["C20"], expect={"C20": r"totals#udp#peers_of_forbidden_torrents|export#udp#only_permitted_torrents"},
      edits=[(US+"swarm.rs", """                if !access_list_cache
                    .load()
                    .allows(access_list_mode, &info_hash.0)
                {
                    peer_map.remove_all_peers(config, statistics_messages);""", """                if matches!(access_list_mode, AccessListMode::Allow)
                    && !access_list_cache
                        .load()
                        .allows(access_list_mode, &info_hash.0)
                {
                    peer_map.remove_all_peers(config, statistics_messages);""")]),
 dict(id="C20-forbidden-peers-vanish-silently", props=["C20"], expect={"C20": r"tally#udp#forbidden_torrent_peers_not_removed"},
      edits=[(US+"swarm.rs", """                    peer_map.remove_all_peers(config, statistics_messages);

                    continue;""", """                    *peer_map = PeerMap::default();

                    continue;""")]),
 dict(id="BENIGN-C20-forbidden-map-not-reset", props=["C20", "C01", "C11"], benign=True,
      edits=[(US+"swarm.rs", """            }
        }

        *self = Self::default();
    }""", """            }
        }
    }""")]),
 dict(id="BENIGN-C03-std-to-ipv4-mapped", props=["C03"], benign=True,
      edits=[(CM+"lib.rs", """                match addr.ip().octets() {
                    // Convert IPv4-mapped address (available in std but nightly-only)
                    [0, 0, 0, 0, 0, 0, 0, 0, 0, 0, 0xff, 0xff, a, b, c, d] => Self(SocketAddr::V4(
                        SocketAddrV4::new(Ipv4Addr::new(a, b, c, d), addr.port()),
                    )),
                    _ => Self(addr.into()),
                }""", """                match addr.ip().to_ipv4_mapped() {
                    Some(ip) => Self(SocketAddr::V4(SocketAddrV4::new(ip, addr.port()))),
                    None => Self(addr.into()),
                }"""),
             (CM+"lib.rs", "use std::net::{Ipv4Addr, SocketAddr, SocketAddrV4, SocketAddrV6};", "use std::net::{SocketAddr, SocketAddrV4, SocketAddrV6};"),
             ("crates/ws/src/common.rs", """            IpAddr::V6(addr) => match addr.octets() {
                [0, 0, 0, 0, 0, 0, 0, 0, 0, 0, 0xff, 0xff, _, _, _, _] => Self::V4,
                _ => Self::V6,
            },""", """            IpAddr::V6(addr) => {
                if addr.to_ipv4_mapped().is_some() {
                    Self::V4
                } else {
                    Self::V6
                }
            }""")]),
 dict(id="C03-to-ipv4-also-converts-compatible-addresses", props=["C03"], expect={"C03": r"table#CanonicalSocketAddr::new"},
      edits=[(CM+"lib.rs", """                match addr.ip().octets() {
                    // Convert IPv4-mapped address (available in std but nightly-only)
                    [0, 0, 0, 0, 0, 0, 0, 0, 0, 0, 0xff, 0xff, a, b, c, d] => Self(SocketAddr::V4(
                        SocketAddrV4::new(Ipv4Addr::new(a, b, c, d), addr.port()),
                    )),
                    _ => Self(addr.into()),
                }""", """                match addr.ip().to_ipv4() {
                    Some(ip) => Self(SocketAddr::V4(SocketAddrV4::new(ip, addr.port()))),
                    None => Self(addr.into()),
                }"""),
             (CM+"lib.rs", "use std::net::{Ipv4Addr, SocketAddr, SocketAddrV4, SocketAddrV6};", "use std::net::{SocketAddr, SocketAddrV4, SocketAddrV6};")]),
 dict(id="C18-udp-validation-sum-can-wrap", props=["C18"], expect={"C18": r"validate#udp#(mio|uring)#max_response_peers#cannot_wrap"},
      edits=[(US+"workers/socket/mod.rs", """        .saturating_mul(size_of::<ResponsePeer<Ipv6AddrBytes>>())
        .saturating_add(size_of::<i32>() + size_of::<AnnounceResponseFixedData>());""", """        .saturating_mul(size_of::<ResponsePeer<Ipv6AddrBytes>>())
        + size_of::<i32>()
        + size_of::<AnnounceResponseFixedData>();""")]),
 dict(id="C18-http-validation-product-can-wrap", props=["C18"], expect={"C18": r"validate#http#max_peers#cannot_wrap"},
      edits=[(HC+"connection.rs", """        .max_peers
        .saturating_mul(MAX_PEER_LEN)
        .saturating_add(""", """        .max_peers
        .wrapping_mul(MAX_PEER_LEN)
        .saturating_add(""")]),
 dict(id="C20-old-export-removed-before-rename", props=["C20"], expect={"C20": r"export#final_path_only_renamed_onto"},
      edits=[(US+"swarm.rs", """                drop(w);

                if let Err(err) = ::std::fs::rename(""", """                drop(w);

                let _ = ::std::fs::remove_file(&config.scrape_exports.path);

                if let Err(err) = ::std::fs::rename(""")]),
 dict(id="C20-export-copied-instead-of-renamed", props=["C20"], expect={"C20": r"export#(final_path_only_renamed_onto|order|rename_args|who_opens_for_writing)"},
      edits=[(US+"swarm.rs", """                if let Err(err) = ::std::fs::rename(
                    config.scrape_exports.tmp_path(),
                    &config.scrape_exports.path,
                ) {""", """                if let Err(err) = ::std::fs::copy(
                    config.scrape_exports.tmp_path(),
                    &config.scrape_exports.path,
                )
                .map(|_| ())
                {""")]),
 dict(id="BENIGN-C18-validation-in-division-form", props=["C18", "C19"], benign=True,
      edits=[(US+"workers/socket/mod.rs", 'pub fn validate_response_sizes(config: &Config) -> anyhow::Result<()> {\n    use std::mem::size_of;\n\n    use aquatic_udp_protocol::{\n        AnnounceResponseFixedData, Ipv6AddrBytes, ResponsePeer, TorrentScrapeStatistics,\n        TransactionId,\n    };\n\n    // Action (i32) followed by response data\n    let max_announce_response_len = config\n        .protocol\n        .max_response_peers\n        .saturating_mul(size_of::<ResponsePeer<Ipv6AddrBytes>>())\n        .saturating_add(size_of::<i32>() + size_of::<AnnounceResponseFixedData>());\n    let max_scrape_response_len = size_of::<i32>()\n        + size_of::<TransactionId>()\n        + (config.protocol.max_scrape_torrents as usize) * size_of::<TorrentScrapeStatistics>();\n\n    #[cfg(all(target_os = "linux", feature = "io-uring"))]\n    if config.network.use_io_uring {\n        if max_announce_response_len > self::uring::RESPONSE_BUF_LEN {\n            return Err(anyhow::anyhow!(\n                "protocol.max_response_peers is too large for io_uring response buffers"\n            ));\n        }\n        if max_scrape_response_len > self::uring::RESPONSE_BUF_LEN {\n            return Err(anyhow::anyhow!(\n                "protocol.max_scrape_torrents is too large for io_uring response buffers"\n            ));\n        }\n\n        return Ok(());\n    }\n\n    if max_announce_response_len > crate::common::BUFFER_SIZE {\n        return Err(anyhow::anyhow!(\n            "protocol.max_response_peers is too large for response buffer"\n        ));\n    }\n    if max_scrape_response_len > crate::common::BUFFER_SIZE {\n        return Err(anyhow::anyhow!(\n            "protocol.max_scrape_torrents is too large for response buffer"\n        ));\n    }\n\n    Ok(())\n}\n', 'pub fn validate_response_sizes(config: &Config) -> anyhow::Result<()> {\n    use std::mem::size_of;\n\n    use aquatic_udp_protocol::{\n        AnnounceResponseFixedData, Ipv6AddrBytes, ResponsePeer, TorrentScrapeStatistics,\n        TransactionId,\n    };\n\n    // Action (i32) followed by fixed response data\n    const ANNOUNCE_RESPONSE_BASE_LEN: usize =\n        size_of::<i32>() + size_of::<AnnounceResponseFixedData>();\n    const SCRAPE_RESPONSE_BASE_LEN: usize = size_of::<i32>() + size_of::<TransactionId>();\n    // IPv6 peers take up the most space\n    const MAX_PEER_LEN: usize = size_of::<ResponsePeer<Ipv6AddrBytes>>();\n\n    #[allow(unused_mut)]\n    let (mut buffer_len, mut buffer_name) = (crate::common::BUFFER_SIZE, "response buffer");\n\n    #[cfg(all(target_os = "linux", feature = "io-uring"))]\n    if config.network.use_io_uring {\n        buffer_len = self::uring::RESPONSE_BUF_LEN;\n        buffer_name = "io_uring response buffers";\n    }\n\n    // Calculate limits instead of response lengths so that very large\n    // configured values can\'t cause overflows and so that the limits can be\n    // reported\n    let max_response_peers = (buffer_len - ANNOUNCE_RESPONSE_BASE_LEN) / MAX_PEER_LEN;\n    let max_scrape_torrents =\n        (buffer_len - SCRAPE_RESPONSE_BASE_LEN) / size_of::<TorrentScrapeStatistics>();\n\n    if config.protocol.max_response_peers > max_response_peers {\n        return Err(anyhow::anyhow!(\n            "protocol.max_response_peers is too large for {} (largest possible value: {})",\n            buffer_name,\n            max_response_peers\n        ));\n    }\n    if config.protocol.max_scrape_torrents as usize > max_scrape_torrents {\n        return Err(anyhow::anyhow!(\n            "protocol.max_scrape_torrents is too large for {} (largest possible value: {})",\n            buffer_name,\n            max_scrape_torrents\n        ));\n    }\n\n    Ok(())\n}\n')]),
 dict(id="BENIGN-C20-rename-accumulator-local", props=["C20", "C10"], benign=True,
      edits=[(US+"swarm.rs", "        let mut total_num_peers = 0;", "        let mut peer_total = 0;"),
             (US+"swarm.rs", "                total_num_peers += num_peers;", "                peer_total += num_peers;"),
             (US+"swarm.rs", "        (total_num_torrents, total_num_peers, opt_histogram)", "        (total_num_torrents, peer_total, opt_histogram)")]),
 dict(id="C14-compact-peer-address-little-endian", props=["C14"], expect={"C14": r"."},
      edits=[(HP+"response.rs", "bytes_written += output.write(&u32::from(peer.ip_address).to_be_bytes())?;", "bytes_written += output.write(&u32::from(peer.ip_address).to_le_bytes())?;")]),
 dict(id="C14-compact-peer-port-native-endian", props=["C14"], expect={"C14": r"."},
      edits=[(HP+"response.rs", """            bytes_written += output.write(&u128::from(peer.ip_address).to_be_bytes())?;
            bytes_written += output.write(&peer.port.to_be_bytes())?;""", """            bytes_written += output.write(&u128::from(peer.ip_address).to_be_bytes())?;
            bytes_written += output.write(&peer.port.to_ne_bytes())?;""")]),
 dict(id="C13-ipv6-image-through-native-endian-integer", props=["C13", "C03"], expect={"C13": r"address#v6#(to|from)_wire", "C03": r"wire_image#address#v6"},
      edits=[(UP+"common.rs", "        Ipv6Addr::from(val.0)", "        Ipv6Addr::from(u128::from_ne_bytes(val.0))"),
             (UP+"common.rs", "        Ipv6AddrBytes(val.octets())", "        Ipv6AddrBytes(u128::from(val).to_ne_bytes())")]),
 dict(id="C16-swarm-worker-keeps-refmut-across-await", props=["C16", "C12"], expect={"C16": r"await#http#no_refcell_guard_held", "C12": r"guard#refcell#not_held_across_await"},
      edits=[("crates/http/src/workers/swarm/mod.rs", """                let response = torrents
                    .borrow_mut()
                    .handle_scrape_request(&config, peer_addr, request);
""", """                let mut torrent_maps = torrents.borrow_mut();
                let response = torrent_maps.handle_scrape_request(&config, peer_addr, request);
""")]),
 dict(id="BENIGN-C16-refmut-dropped-before-await", props=["C16", "C12", "C07"], benign=True,
      edits=[("crates/http/src/workers/swarm/mod.rs", """                let response = torrents
                    .borrow_mut()
                    .handle_scrape_request(&config, peer_addr, request);
""", """                let mut torrent_maps = torrents.borrow_mut();
                let response = torrent_maps.handle_scrape_request(&config, peer_addr, request);
                drop(torrent_maps);
""")]),
]

# ---- round 3 of benign edits: behaviour-preserving refactors of anchor functions; every claimed check must stay silent
ALL = ["C%02d" % i for i in range(1, 21)]
HCN = HC + "connection.rs"
MUTANTS += [
 dict(id="BENIGN-mio-early-return-on-invalid-id", props=["C06", "C11", "C03", "C05", "C12"], benign=True,
      edits=[(MIO+"mod.rs", """            Request::Announce(request) => {
                if self
                    .validator
                    .connection_id_valid(src, request.connection_id)
                {
                    if self
                        .access_list_cache
                        .load()
                        .allows(access_list_mode, &request.info_hash.0)
                    {
                        let response = self.shared_state.torrent_maps.announce(
                            &self.config,
                            &self.statistics_sender,
                            &mut self.rng,
                            &request,
                            src,
                            self.peer_valid_until,
                        );

                        return Some(response);
                    } else {
                        return Some(Response::Error(ErrorResponse {
                            transaction_id: request.transaction_id,
                            message: "Info hash not allowed".into(),
                        }));
                    }
                }
            }""", """            Request::Announce(request) => {
                if !self
                    .validator
                    .connection_id_valid(src, request.connection_id)
                {
                    return None;
                }

                let allowed = self
                    .access_list_cache
                    .load()
                    .allows(access_list_mode, &request.info_hash.0);

                if !allowed {
                    return Some(Response::Error(ErrorResponse {
                        transaction_id: request.transaction_id,
                        message: "Info hash not allowed".into(),
                    }));
                }

                let response = self.shared_state.torrent_maps.announce(
                    &self.config,
                    &self.statistics_sender,
                    &mut self.rng,
                    &request,
                    src,
                    self.peer_valid_until,
                );

                return Some(response);
            }""")]),
 dict(id="BENIGN-udp-export-tmp-path-local", props=["C20", "C01", "C10", "C12"], benign=True,
      edits=[(SWR, """        let mut opt_scrape_export_writer = if export_full_scrape {
            match File::create(config.scrape_exports.tmp_path()) {""", """        let tmp_path = config.scrape_exports.tmp_path();
        let mut opt_scrape_export_writer = if export_full_scrape {
            match File::create(&tmp_path) {"""),
             (SWR, """                if let Err(err) = ::std::fs::rename(
                    config.scrape_exports.tmp_path(),
                    &config.scrape_exports.path,
                ) {""", """                if let Err(err) = ::std::fs::rename(&tmp_path, &config.scrape_exports.path) {""")]),
 dict(id="BENIGN-udp-scrape-family-by-match", props=["C03", "C06", "C01", "C12"], benign=True,
      edits=[(SWR, """        if src.is_ipv4() {
            self.ipv4.scrape(request)
        } else {
            self.ipv6.scrape(request)
        }""", """        match src.get().ip() {
            IpAddr::V4(_) => self.ipv4.scrape(request),
            IpAddr::V6(_) => self.ipv6.scrape(request),
        }""")]),
 dict(id="BENIGN-udp-announce-method-min-and-locals", props=["C02", "C01", "C12", "C20", "C18"], benign=True,
      edits=[(SWR, """            ::std::cmp::min(
                config.protocol.max_response_peers,
                request.peers_wanted.0.get().try_into().unwrap(),
            )""", """            let wanted: usize = request.peers_wanted.0.get().try_into().unwrap();

            config.protocol.max_response_peers.min(wanted)""")]),
 dict(id="BENIGN-udp-scrape-statistics-map-or-else", props=["C01", "C06", "C04", "C12"], benign=True,
      edits=[(SWR, """            let statistics = if let Some(peer_map) = torrent_map_shard.read().get(&info_hash) {
                peer_map.read().scrape_statistics()
            } else {
                TorrentScrapeStatistics {
                    seeders: NumberOfPeers::new(0),
                    leechers: NumberOfPeers::new(0),
                    completed: NumberOfDownloads::new(0),
                }
            };""", """            let statistics = match torrent_map_shard.read().get(&info_hash) {
                Some(peer_map) => peer_map.read().scrape_statistics(),
                None => TorrentScrapeStatistics {
                    seeders: NumberOfPeers::new(0),
                    leechers: NumberOfPeers::new(0),
                    completed: NumberOfDownloads::new(0),
                },
            };""")]),
 dict(id="BENIGN-http-write-response-hoisted-start", props=["C16", "C12", "C18"], benign=True,
      edits=[(HCN, """        {
            let start = RESPONSE_HEADER_A.len();
            let end = start + RESPONSE_HEADER_B.len();

            self.response_buffer[start..end].copy_from_slice(RESPONSE_HEADER_B);
        }

        // Set content-len header value

        {
            let mut buf = ::itoa::Buffer::new();
            let content_len_bytes = buf.format(content_len).as_bytes();

            let start = RESPONSE_HEADER_A.len();
            let end = start + content_len_bytes.len();

            self.response_buffer[start..end].copy_from_slice(content_len_bytes);
        }""", """        let digits_start = RESPONSE_HEADER_A.len();

        self.response_buffer[digits_start..digits_start + RESPONSE_HEADER_B.len()]
            .copy_from_slice(RESPONSE_HEADER_B);

        // Set content-len header value

        let mut buf = ::itoa::Buffer::new();
        let content_len_bytes = buf.format(content_len).as_bytes();

        self.response_buffer[digits_start..digits_start + content_len_bytes.len()]
            .copy_from_slice(content_len_bytes);""")]),
 dict(id="BENIGN-http-announce-index-before-channel", props=["C16", "C11", "C12", "C03"], benign=True,
      edits=[(HCN, """                    let (response_sender, response_receiver) = shared_channel::new_bounded(1);

                    let request = ChannelRequest::Announce {
                        request,
                        peer_addr,
                        response_sender,
                    };

                    let consumer_index = calculate_request_consumer_index(&self.config, info_hash);
""", """                    let consumer_index = calculate_request_consumer_index(&self.config, info_hash);

                    let (response_sender, response_receiver) = shared_channel::new_bounded(1);

                    let request = ChannelRequest::Announce {
                        request,
                        peer_addr,
                        response_sender,
                    };
""")]),
 dict(id="BENIGN-http-keep-alive-loop-condition", props=["C16", "C12", "C03"], benign=True,
      edits=[(HCN, """            if !self.config.network.keep_alive {
                break;
            }
        }

        Ok(())""", """            let keep_alive = self.config.network.keep_alive;

            if keep_alive {
                continue;
            }

            return Ok(());
        }""")]),
 dict(id="BENIGN-ws-announce-early-return-when-forbidden", props=["C17", "C11", "C12"], benign=True,
      edits=[(WCN, """        let info_hash = request.info_hash;

        if self
            .access_list_cache
            .load()
            .allows(self.config.access_list.mode, &info_hash.0)
        {
            let mut announced_info_hashes""", """        let info_hash = request.info_hash;

        let allowed = self
            .access_list_cache
            .load()
            .allows(self.config.access_list.mode, &info_hash.0);

        if allowed {
            let mut announced_info_hashes""")]),
 dict(id="BENIGN-ws-scrape-count-after-meta", props=["C17", "C12"], benign=True,
      edits=[(WCN, """        let pending_worker_out_messages = info_hashes_by_worker.len();

        let pending_scrape_response = PendingScrapeResponse {
            pending_worker_out_messages,
            stats: Default::default(),
        };
""", """        let pending_scrape_response = PendingScrapeResponse {
            pending_worker_out_messages: info_hashes_by_worker.len(),
            stats: Default::default(),
        };
""")]),
]

# a reviewed panic-capable site that merely moves to another function of the same crate (rename) is not a new site (C12 move tolerance)
MUTANTS += [
 dict(id="BENIGN-C12-rename-function-with-reviewed-sites", props=["C12", "C06", "C18"], benign=True,
      edits=[(US+"workers/socket/uring/buf_ring.rs", "        self.raw.stable_ptr_i(bid)", "        self.raw.stable_ptr_of(bid)"),
             (US+"workers/socket/uring/buf_ring.rs", "    fn stable_ptr_i(&self, bid: Bid) -> *const u8 {", "    fn stable_ptr_of(&self, bid: Bid) -> *const u8 {"),
             (US+"workers/socket/uring/buf_ring.rs", "        entry.set_addr(self.stable_ptr_i(bid) as _);", "        entry.set_addr(self.stable_ptr_of(bid) as _);")]),
 dict(id="BENIGN-C12-safe-length-arithmetic-added", props=["C12", "C16"], benign=True,
      edits=[(HCN, """        let mut info_hashes_by_worker: BTreeMap<usize, Vec<InfoHash>> = BTreeMap::new();

                // Limit number""", """        let mut info_hashes_by_worker: BTreeMap<usize, Vec<InfoHash>> = BTreeMap::new();

                ::log::trace!("scrape request with {} info hashes (+1)", info_hashes.len() + 1);

                // Limit number""")]),
]

MUTANTS += [
 dict(id="BENIGN-ws-ownership-demorgan", props=["C08", "C17", "C09", "C12"], benign=True,
      edits=[(WS+"storage.rs", """            if request_sender_meta.connection_id != previous_peer.connection_id
                || request_sender_meta.out_message_consumer_id.0 != previous_peer.consumer_id.0
            {
                return;
            }""", """            let same_connection = request_sender_meta.connection_id == previous_peer.connection_id
                && request_sender_meta.out_message_consumer_id.0 == previous_peer.consumer_id.0;

            if !same_connection {
                return;
            }""")]),
 dict(id="BENIGN-http-clean-if-else-instead-of-early-return", props=["C07", "C11", "C10", "C12"], benign=True,
      edits=[(HST, """            if !access_list_cache
                .load()
                .allows(config.access_list.mode, &info_hash.0)
            {
                return false;
            }

            let num_peers = match torrent_data {
                TorrentData::Small(t) => t.clean_and_get_num_peers(now),
                TorrentData::Large(t) => t.clean_and_get_num_peers(now),
            };

            total_num_peers += num_peers as u64;

            num_peers > 0
        });""", """            let allowed = access_list_cache
                .load()
                .allows(config.access_list.mode, &info_hash.0);

            if allowed {
                let num_peers = match torrent_data {
                    TorrentData::Small(t) => t.clean_and_get_num_peers(now),
                    TorrentData::Large(t) => t.clean_and_get_num_peers(now),
                };

                total_num_peers += num_peers as u64;

                num_peers > 0
            } else {
                false
            }
        });""")]),
 dict(id="BENIGN-http-numwant-match-reordered", props=["C02", "C07", "C12"], benign=True,
      edits=[(HST, """        let max_num_peers_to_take = match request.numwant {
            Some(0) | None => config.protocol.max_peers,
            Some(numwant) => numwant.min(config.protocol.max_peers),
        };""", """        let max_peers = config.protocol.max_peers;
        let max_num_peers_to_take = match request.numwant {
            None => max_peers,
            Some(0) => max_peers,
            Some(numwant) => ::std::cmp::min(numwant, max_peers),
        };""")]),
 dict(id="BENIGN-udp-validator-named-temps", props=["C05", "C12", "C06"], benign=True,
      edits=[(US+"workers/socket/validator.rs", """        if !constant_time_eq(hash, &self.hash(elapsed, source_addr.get().ip())) {
            return false;
        }""", """        let source_ip = source_addr.get().ip();
        let expected_hash = self.hash(elapsed, source_ip);

        if !constant_time_eq(hash, &expected_hash) {
            return false;
        }""")]),
 dict(id="BENIGN-ws-announce-response-local-counts", props=["C08", "C09", "C17", "C12"], benign=True,
      edits=[(WS+"storage.rs", """        let response = OutMessage::AnnounceResponse(AnnounceResponse {
            action: AnnounceAction::Announce,
            info_hash: request.info_hash,
            complete: torrent_data.num_seeders,
            incomplete: torrent_data.num_leechers(),
            announce_interval: config.protocol.peer_announce_interval,
        });""", """        let complete = torrent_data.num_seeders;
        let incomplete = torrent_data.num_leechers();

        let response = OutMessage::AnnounceResponse(AnnounceResponse {
            action: AnnounceAction::Announce,
            info_hash: request.info_hash,
            complete,
            incomplete,
            announce_interval: config.protocol.peer_announce_interval,
        });""")]),
]

MUTANTS += [
 dict(id="C16-request-window-not-reset", props=["C16"], expect={"C16": r"window#restart_and_growth"},
      edits=[(HCN, "        self.request_buffer_position = 0;\n\n", "")]),
 dict(id="BENIGN-C16-window-reset-when-request-is-handed-out", props=["C16", "C12"], benign=True,
      edits=[(HCN, "        self.request_buffer_position = 0;\n\n", ""),
             (HCN, "                    return Ok((request, opt_peer_addr));", "                    self.request_buffer_position = 0;\n\n                    return Ok((request, opt_peer_addr));")]),
]

URM = US + "workers/socket/uring/mod.rs"
URS = US + "workers/socket/uring/send_buffers.rs"
MUTANTS += [
 dict(id="C06-uring-buffer-leaks-after-failed-send", props=["C06"], expect={"C06": r"send#uring#buffer_released_on_every_completion"},
      edits=[(URM, """                unsafe {
                    self.send_buffers
                        .mark_buffer_as_free(send_buffer_index as usize);
                }""", """                if result >= 0 {
                    unsafe {
                        self.send_buffers
                            .mark_buffer_as_free(send_buffer_index as usize);
                    }
                }""")]),
 dict(id="C06-uring-reply-sent-with-stale-length", props=["C06"], expect={"C06": r"send#uring#msghdr_per_reply"},
      edits=[(URS, "                self.iovec.iov_len = cursor.position() as usize;\n\n", "")]),
 dict(id="C06-uring-v6-header-keeps-v4-name", props=["C06"], expect={"C06": r"send#uring#msghdr_per_reply"},
      edits=[(URS, "            self.msghdr.msg_name = addr_of_mut!(self.name_v6) as *mut libc::c_void;\n", "")]),
 dict(id="C06-uring-reply-dropped-when-no-buffer", props=["C06"], expect={"C06": r"send#uring#who_queues"},
      edits=[(URM, """                        Err(send_buffers::Error::NoBuffers(response)) => {
                            self.local_responses.push_front((addr, response));
""", """                        Err(send_buffers::Error::NoBuffers(_)) => {
""")]),
]

MUTANTS += [
 dict(id="C06-uring-v6-receive-rearmed-with-v4-entry", props=["C06"], expect={"C06": r"recv#uring#family_arms"},
      edits=[(URM, """                if !io_uring::cqueue::more(cqe.flags()) {
                    self.resubmittable_sqe_buf.push(self.recv_sqe_ipv6.clone());
                }""", """                if !io_uring::cqueue::more(cqe.flags()) {
                    self.resubmittable_sqe_buf.push(self.recv_sqe_ipv4.clone());
                }""")]),
 dict(id="C06-uring-v6-completion-parsed-as-v4", props=["C06"], expect={"C06": r"recv#uring#family_arms"},
      edits=[(URM, "                if let Some((addr, response)) = self.handle_recv_cqe(&cqe, false) {", "                if let Some((addr, response)) = self.handle_recv_cqe(&cqe, true) {")]),
]

MIOS = MIO + "socket.rs"
MUTANTS += [
 dict(id="C06-mio-v6-event-reads-v4-socket", props=["C06"], expect={"C06": r"dispatch#mio#token_per_socket"},
      edits=[(MIO+"mod.rs", """                    TOKEN_V6 => {
                        if let Some(socket) = opt_socket_ipv6.as_mut() {""", """                    TOKEN_V6 => {
                        if let Some(socket) = opt_socket_ipv4.as_mut() {""")]),
 dict(id="C06-mio-both-sockets-registered-under-one-token", props=["C06"], expect={"C06": r"dispatch#mio#token_per_socket"},
      edits=[(MIO+"mod.rs", "            .register(&mut socket.socket, TOKEN_V6, Interest::READABLE)", "            .register(&mut socket.socket, TOKEN_V4, Interest::READABLE)")]),
 dict(id="C06-mio-receive-loop-stops-after-garbage", props=["C06"], expect={"C06": r"dispatch#mio#drains_until_would_block"},
      edits=[(MIOS, """                                "request parse error (didn't send error response): {:?}",
                                err
                            );
                        }""", """                                "request parse error (didn't send error response): {:?}",
                                err
                            );

                            break;
                        }""")]),
]
